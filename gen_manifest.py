#!/usr/bin/env python3
"""Regenerates MANIFEST.json from the table below (kept in one place so it stays valid)."""
import json, subprocess

HOOK_COMMITS = subprocess.run(
    ["git", "-C", "/repo", "log", "--format=%h %s", "--grep=^verif hooks"],
    capture_output=True, text=True).stdout.strip().splitlines()

CHECKS = {
 "C01": dict(engine="seq", cat="exploration", ref="§5 C01",
   technique="model-based property testing (proptest call sequences vs. last-writer-wins reference model, snapshot + read-back oracles)",
   text="Generated call sequences over the whole configuration matrix are executed against the real store and judged call by call by an independent LWW model, a non-perturbing snapshot comparison after every step and read-backs on every tier. Exploration is the right level: the property quantifies over unbounded programs and inputs; thousands of shrunk-on-failure cases with measured tier/config coverage attack it directly.",
   note="Trusted: the model in harness/src/model.rs (Appendix A of DESIGN.md), the peek/snapshot hook (read-only), the thread-local clock hook. Automatic timestamps are observed and adopted, not predicted."),
 "C05": dict(engine="seq", cat="exploration", ref="§5 C05",
   technique="model-based property testing with a structural invariant oracle (exact block partition from the store snapshot) on tiny devices",
   text="Workloads with mixed extent sizes on 24-80 block devices; at every acknowledged flush the snapshot must partition the data area exactly and persisted counters must equal live totals; every key reads back from disk.",
   note="Trusted: snapshot hook exposes records, free runs and counters faithfully; quiescence = flush() Ok on the single application thread."),
 "C10": dict(engine="seq", cat="exploration", ref="§5 C10",
   technique="differential testing against an independent layout codec (own CRC32C/token/journal/metadata decoder) over generated workloads on v1/v2/v3 devices",
   text="After every acknowledged flush the device file is decoded by a codec that shares no code with feoxdb and must contain exactly the model's live set, valid markers, a clear journal and matching counters; legacy devices are built by the codec's own writer and must keep their format.",
   note="Trusted: harness/src/layout.rs as the transcription of the released layout (validated against files written by the pinned tree)."),
 "C11": dict(engine="seq", cat="exploration", ref="§5 C11",
   technique="model-based property testing with a virtual clock steered to expiry-1ns/expiry/expiry+1ns",
   text="TTL writes through every API, clock moves onto expiry boundaries, flush/reopen in between; no value-reading call may return an expired generation, unexpired ones are never missing, expiry and value survive flush, restart and TTL-only updates. A second campaign recovers codec-synthesised images (expired newest generations next to older ones, in both scan orders) against an independent newest-wins/expiry oracle.",
   note="Trusted: clock hook, model. Sweeper and crash parts are judged by the concurrency/crash engines when registered."),
 "C12": dict(engine="seq", cat="exploration", ref="§5 C12",
   technique="property testing of timestamp monotonicity invariants over generated histories (many keys, explicit/automatic mixes, restarts), observed through the peek hook",
   text="After each accepted automatic call the assigned timestamp must exceed the key's previous and explicit timestamps, stay below the absorbed-failure bound, never be rejected as older unless the key itself is pinned; recovered timestamps equal the model's.",
   note="Trusted: peek hook. One listed known finding (clock-shard saturation) is excluded by construction and counted."),
 "C13": dict(engine="seq", cat="exploration", ref="§5 C13",
   technique="model-based property testing of the accounting invariant (exact equality after every call) under tight memory limits",
   text="memory_usage()/len() must equal the model's sum after every call of generated sequences incl. flush, reopen, expiry; OutOfMemory exactly when the limit would be exceeded and without side effects. A second campaign reopens crash images of generated workloads and requires exact accounting right after recovery.",
   note="Trusted: size_of::<Record>() as the documented fixed overhead. Concurrent limit enforcement is judged by the concurrency engine when registered."),
 "C14": dict(engine="seq", cat="exploration", ref="§5 C14",
   technique="model-based property testing of range queries (bounds/limits/tiers/expired entries) against the ordered reference map",
   text="Every generated range query must return exactly the model's live unexpired keys in range, ordered, first `limit`, with current values, on every tier; both indexes must agree after every step. A concurrent campaign races scanners with writers creating/deleting keys next to stable keys (steered schedules): order, bounds, limit, genuine values, stable keys inside the returned window exactly once, deleted-before-scan keys absent, and index agreement at quiescence.",
   note="Trusted: model. Concurrent scan guarantees are judged by the concurrency engine when registered."),
 "C16": dict(engine="seq", cat="exploration", ref="§5 C16",
   technique="differential property testing (same generated program with cache on and off, both vs. the reference model)",
   text="Persistent programs are executed with the read cache on and off; both executions must agree with the model call by call, so a stale cache entry masking an update, delete, re-creation, TTL change or restart is a failure. A second campaign drives ClockCache alone (insert/get/remove/evict/clear/adjust_watermarks with small watermarks) against an exact mirror: accounting, remove-then-miss, eviction to the low watermark without evicting referenced entries when unreferenced ones suffice.",
   note="Trusted: model; executions are compared through the model because automatic timestamps depend on per-process hash seeds."),
 "C02": dict(engine="crash", cat="fault_enumeration", ref="§5 C02",
   technique="crash-point enumeration over the recorded device-write trace of proptest-generated workloads (prefix x subset of un-synced writes x sector tearing), each image reopened and judged by a per-key history-window oracle",
   text="For every acknowledgement (flush Ok / clean close) in generated workloads, every later trace point and an enumerated family of lost/reordered/torn un-synced writes yields an image that the real recovery must open to states no older than the acknowledged ones. Fault enumeration is the natural level: the quantifier is over crash points and write subsets of a finite trace.",
   note="Trusted: the I/O observer hook reports every pwrite/fsync/io_uring write in device order (writes are serialised by the DiskIO lock); standard crash model (writes before a completed fsync are durable; later ones independently absent/present/torn at 512 B); file length assumed durable."),
 "C03": dict(engine="crash", cat="fault_enumeration", ref="§5 C03",
   technique="crash-point enumeration over the whole device-write trace incl. open/recovery, with hostile payloads (record/marker/tombstone images with valid tokens), judged by authenticity + history-window + index-agreement oracles",
   text="Every trace point of generated workloads (before, between, after acknowledgements, inside open) with enumerated subsets/tearings; the image must open and expose only complete generations from each key's own history inside the [acked, begun] window, no ghost keys, len() == exposed keys.",
   note="Same trusted base as C02. One genuine defect found and repaired (fresh-device metadata not synced), see known_findings.jsonl."),
 "C04": dict(engine="crash", cat="fault_enumeration", ref="§5 C04",
   technique="nested crash-point enumeration: recovery of each crash image is traced, its own repair writes are cut at every point (subset/tearing), nested images must recover to the first recovery's contents; repair writes checked against live extents",
   text="Images whose recovery writes (journal replay, retiring duplicates/expired winners, marker repair) are re-crashed inside those writes to the stated depth; contents must equal the first successful recovery's, reopening is idempotent, repairs never overlap a live extent.",
   note="Same trusted base as C02; nested images per workload are capped (reported in evidence), virtual clock fixed during recovery."),
 "C06": dict(engine="unit", cat="exploration", ref="§5 C06",
   technique="exhaustive small-scope state-space enumeration plus proptest call sequences against a bitmap reference allocator",
   text="Every reachable free-set state of devices with 4..N data blocks is expanded under every allocate/release argument (incl. overflow values); larger devices are covered by generated sequences biased to run edges. After every call the reported totals and the run list must equal the true merged free set; failed calls change nothing.",
   note="Trusted: the bitmap reference in harness/src/props/c06.rs; the read-only free-run accessor hook. get_fragmentation is not judged (not part of the statement)."),
 "C17": dict(engine="unit", cat="exploration", ref="§5 C17",
   technique="structure-aware image fuzzing (proptest mutation programs over valid images + codec-built forgeries with re-stamped checksums/tokens) with a no-panic / no-hang / no-takeover oracle in journaled worker processes",
   text="Thousands of random, mutated and forged device images per run are opened by the real code in worker processes; the oracle requires clean termination (Ok or Err), no panic in any thread, a working probe workload on opened stores, and byte-identical files for rejected foreign or invalid devices.",
   note="Trusted: worker journal (image saved before it is opened) for attribution of aborts/hangs; watchdog 30 s per call; device sizes 17-104 blocks."),
 "C15": dict(engine="unit", cat="exploration", ref="§5 C15",
   technique="differential property testing of migrate() against an independent newest-wins decode of generated legacy sources (real v1/v2 workload files incl. crashed ones + codec-synthesised images)",
   text="Generated legacy sources are migrated with/without the ambiguity opt-in and with absent/pre-existing destinations; the destination must decode (independent codec) to exactly the source's newest generations, the source bytes must be unchanged, failures must leave nothing behind.",
   note="Trusted: layout codec (decoder and legacy encoder); expected contents skip extents named by an active journal, as recovery does."),
 "C09": dict(engine="fault", cat="fault_enumeration", ref="§5 C09",
   technique="fault-plan enumeration: generated workloads re-executed under generated per-I/O-call fault plans (k-th write/fsync fails before/after, repeated, forever, pairs) with model, recovered-image and heal oracles",
   text="Every (workload, plan) execution checks that reads keep matching the model, that after every flush - failed or not - the device as it stands (durable-only and as-written images) recovers to states no older than the acknowledged ones, that flush Ok implies durability, and that a healed or reopened device flushes again.",
   note="Trusted: I/O hook fault decisions are honoured at every pwrite/fsync (plain path) and per submission on io_uring; failed fsync = no guarantee but no destruction; reopen-after-indeterminate on a file copy."),
 "C19": dict(engine="crash", cat="exploration", ref="§5 C19",
   technique="property testing of live write-behind: generated bursts on stores with 1..8 workers, polling through the snapshot hook, durable image rebuilt from the I/O trace and decoded by the independent codec",
   text="Without explicit flush every accepted write/delete (and the retirement of superseded, deleted and swept generations) must reach the device within a generous bound for every shard/worker count, with idle and busy neighbours and buffer-filling bursts; the fsync-covered image must hold the final values.",
   note="Timing property: the verdict bound is 15 s + measured stalls and must reproduce twice; the nominal 2 s bound is reported as a statistic only. Liveness beyond the explored schedules is not established."),
 "C07": dict(engine="conc", cat="exploration", ref="§5 C07",
   technique="stateful concurrent property testing: generated multi-threaded programs steered through named scheduling points (jitter tables / bounded parks), histories judged by a WGL linearizability checker against the last-writer-wins specification with the two permitted relaxations",
   text="Thousands of generated programs (2-4 threads, explicit dense timestamps or automatic ones, memory-only and persistent with a flushing thread) are executed under generated schedules; each per-key history must have a linearization, with conservative OlderTimestamp / CAS no-swap / StaleExtent admitted only when a genuinely overlapping or earlier-invoked accepted modification exists.",
   note="Schedule space is sampled and steered, not enumerated; a recorded history is judged deterministically but re-execution is not bit-reproducible. Trusted: harness/src/lin.rs (specification + search)."),
 "C08": dict(engine="conc", cat="exploration", ref="§5 C08",
   technique="concurrent property testing with a generation-window oracle over self-identifying values, plus a device-write vs. parked-reader overlap check through the I/O and scheduling hooks",
   text="Readers race one-writer-per-key updates/deletes/TTL changes, a flushing thread, retirement and immediate block reuse on tiny devices; every returned value must be one complete generation inside the [completed-before, started-after] window, not-found/StaleExtent only when justified, sole-modifier increments and swaps exact, and no device write may hit an extent while a reader is parked between locating and reading it.",
   note="Schedule space sampled and steered. The no-overwrite clause is checked for readers parked at the after_sector_load point."),
 "C18": dict(engine="conc", cat="exploration", ref="§5 C18",
   technique="property testing of bounded completion: generated contention programs (concurrent flush callers, writers, readers, sweeper, shutdown variants, full device, transient/periodic/site-filtered I/O faults, steered schedules) under a watchdog with isolated re-execution",
   text="Every call, join, flush and drop of generated contention programs must finish under a 20 s watchdog; an overrun is re-executed alone with a 60 s limit and only a second overrun is reported (with thread states). All other engines run under the same watchdog (their overruns end as exit 2, inconclusive).",
   note="Liveness is only observed for explored schedules: a watchdog is a bound, not a proof. This is the property the technique is weakest on."),
 "C20": dict(engine="conc", cat="exploration", ref="§5 C20",
   technique="re-execution of the generated concurrent programs and fault plans in an AddressSanitizer build (nightly -Zsanitizer=address, system allocator); oracle: no sanitizer report, no abnormal termination",
   text="The programs of C07, C08/C16, C14 (concurrent), C18 and the fault plans of C09 run in a binary where harness and feoxdb are ASan-instrumented; any heap-use-after-free / double free / out-of-bounds report in any worker is a violation (per-worker log files, abort_on_error).",
   note="AddressSanitizer only sees executed schedules; data races without a memory-safety symptom are out of reach (TSan needs -Zbuild-std and was not used). Needs the nightly toolchain present in the image."),
}

NOT_YET = {
}

# stages added after the first registration (appended to the level text; details in DESIGN.md §0.2, §0.6, §10)
ADDENDA = {
 "C01": " Arms of the generator: wide-extent workloads (values of 200-600 blocks), keys of 65 535-102 400 bytes; JSON documents in serde_json's own output form with patches that succeed without changing the document.",
 "C02": " Workload families: free-form, wide batches (60-300 records in one shard), wide extents (200-600 blocks), mass deletions (> 1024 retirements in one flush), devices filled to their very last block (transactions whose extent ends at the device end). Half of the workloads acknowledge through 2-3 application threads calling flush() at once: every Ok is an acknowledgement of everything completed before the flushes began.",
 "C03": " A second stage recovers codec-synthesised images (states a crash can leave: duplicate generations, pending markers, active journals, expired winners, runs of 257-700 keys) and requires the newest complete generation per key and len() == range count == keys exposed. Workload families: free-form, wide batches (60-300 records in one shard), wide extents (200-600 blocks), mass deletions (> 1024 retirements in one flush, crash points around every fsync of that flush with the most recent write torn), devices filled to their very last block; concurrent flush() callers in half of the workloads.",
 "C04": " Two further stages: codec-synthesised images forcing every repair kind, and mass-retirement images (380-1250 duplicated keys of 1-3 blocks, so one recovery spans several journal transactions) cut after/before every recovery fsync with torn marker writes; this stage found and led to the repair of a genuine defect (known_findings.jsonl).",
 "C05": " Further stages: fill cycles, wide-extent workloads, exact partition right after recovering crash images and synthesised images, and at the first acknowledged flush after an outage (transient, site-filtered I/O faults over C09's workloads).",
 "C06": " Device sizes that are not a whole number of blocks are part of both parts.",
 "C07": " Sub-campaign C07M: explicit timestamps ahead of the wall clock published while helper threads draw automatic timestamps in the same clock shard; at quiescence an automatic call on the key must be accepted and stamped above the explicit one.",
 "C08": " Three programs in ten put key 0 on a virtual clock (one-second TTLs, clock jumps, deletes of the expired key). Sub-campaign C08S: a reader parked between locating and reading an extent while the generation goes away (overwrite, delete, TTL update + overwrite, expiry followed by delete / lazy removal / sweeper / re-creation), then flush next to writes that want the freed blocks: no device write may touch the pinned blocks, the reader returns a genuine generation, not-found or StaleExtent.",
 "C09": " Fault sites include record-only and marker-only writes; generators include bursts (> 1024 entries pending in one shard) and chains of unwritten generations behind an acknowledged one.",
 "C10": " Added oracle: no retirement marker's announced span covers a live record. Added stage: sparse devices beyond 4 GiB with records before, across and beyond byte offset 2^32.",
 "C11": " Further stages: recovery of codec-synthesised images against an independent newest-wins/expiry oracle, mass-retirement restarts, sweeper racing writers (engine D).",
 "C12": " Further stages: budgeted stores with explicit future timestamps on refused calls; automatic-write probe right after recovering crash images and synthesised images whose timestamps lie ahead of the clock.",
 "C13": " Keys of 65 535-102 400 bytes are part of the generator; one concurrent program in six runs on a store without any memory limit.",
 "C14": " One case in twenty queries ranges over 257-620 index entries with limits around 256/512; another one runs a few keys against a small memory budget (refused zero-copy updates followed by full-range queries).",
 "C16": " Sub-campaign C16S: a reader parked inside its device read while the key is overwritten (stale cache entry of a retired generation), then flush and a follow-up call (update_ttl / persist / get / compare-and-swap); reads live and after restart must see the current generation. The ClockCache campaign includes fills of 300-3500 small entries (several entries per bucket).",
 "C15": " Disturbances: source mtime touched, a foreign file planted at the destination while the migration runs; mass sources (hundreds of duplicated keys); multi-block values whose continuation blocks begin with the image of a legacy record of a key nobody wrote. Every case without a mid-migration disturbance is repeated through the feox-migrate command built from the current tree (target dir /verif/target-cli): same outcome as migrate(), same destination contents, and on failure the destination path exactly as it was (absent, or the pre-existing file byte for byte).",
 "C17": " Image classes include files whose first 255-513 blocks are zero with foreign bytes behind them (the blank-device scan works in 256-block chunks).",
 "C18": " Writers of sweeper programs restart the running TTL sweeper with another configuration every 41 calls. One program in four: several flush() callers on a device whose record writes fail 3-9 times in a row again and again; hangs are re-run alone up to three times. One program in nine: a slow writer, 1-2 flush() callers and 6-12 readers pinned to one cpu (readers descheduled at arbitrary instructions of get() while the record they hold is retired).",
 "C19": " Further phases: writes waiting for space on a full device until accepted deletes reclaim it; bursts of 64-200 KiB values (bytes, not entries, fill the shard buffer); 0.3-0.9 s of sustained overwriting by 2-4 threads (workers busy across periodic ticks) followed by sparse probes on every shard; one case in forty leaves the store idle for 6.5-7.5 s and requires the first sparse write afterwards on the device within 3 s + measured stalls.",
 "C20": " A last stage runs uninstrumented: DiskIO::batch_write sequences on a slow device (Unix datagram socket pair) with rejected writes and generated stalls; the device must only ever receive submitted bytes (reads done by the kernel are invisible to AddressSanitizer). A second uninstrumented stage drives DiskIO in direct-I/O mode (never selected by the store inside a container) with generated write/read sequences in a child process built with feoxdb's default features, i.e. with jemalloc as the global allocator: reads must return the model's bytes, aligned-buffer accounting must return to its baseline, the child must not die by a signal (a buffer released through the wrong allocator is invisible to the ASan build, which uses the system allocator). Inside the ASan build a further child (C20U) calls the public helpers outside the store - hash_key / murmur3_32 / hash_key_aes_safe / MurmurHasher, AlignedBuffer, apply_json_patch - with exactly sized heap inputs and inputs ending on a page whose successor is inaccessible.",
}

def main():
    checks = []
    for pid in sorted(CHECKS):
        c = CHECKS[pid]
        checks.append({
            "property_id": pid,
            "quick_cmd": f"./check {pid} --tier quick",
            "thorough_cmd": f"./check {pid} --tier thorough",
            "evidence_file": f"/verif/evidence/{pid}.json",
            "replay_cmd_template": f"./check {pid} --replay {{path}}",
            "engine": c["engine"],
            "level_claimed": {"category": c["cat"], "text": c["text"] + ADDENDA.get(pid, ""), "design_ref": c["ref"]},
            "level_note": c["note"],
            "technique": c["technique"],
        })
    engines = {}
    for pid, c in CHECKS.items():
        engines.setdefault(c["engine"], []).append(pid)
    ENGINE_INFO = {
        "seq": ("harness/src/seq.rs", "single-threaded call sequences vs. reference model, snapshot, independent codec (proptest)"),
        "crash": ("harness/src/crash.rs", "device-write trace -> crash images (prefix x subset x tearing) -> reopen (proptest workloads, enumerated images)"),
        "fault": ("harness/src/props/c09.rs", "per-I/O-call fault plans over generated workloads"),
        "conc": ("harness/src/conc.rs", "steered multi-threaded programs with history oracles"),
        "unit": ("harness/src/props/ (c06.rs, c15.rs, c16unit.rs, c17.rs, synthrec.rs, bigdev.rs, c20k.rs, c20j.rs + harness-dio/)", "component-level generated sequences / images"),
    }
    manifest = {
        "version": 1,
        "setup_cmd": "cd /verif/harness && CARGO_NET_OFFLINE=true cargo build --release --offline && cd /verif/harness-dio && CARGO_NET_OFFLINE=true cargo build --release --offline && cd /repo && CARGO_NET_OFFLINE=true cargo build --release --offline --bin feox-migrate --target-dir /verif/target-cli",
        "hooks": {
            "guard": "--cfg feoxdb_verif",
            "enable": "harness/.cargo/config.toml sets rustflags = [\"--cfg\", \"feoxdb_verif\"]; feoxdb is a path dependency on /repo, so every ./check rebuilds it from the working tree with the hooks compiled in",
            "baseline_off_cmd": "cd /repo && cargo test --workspace --no-fail-fast --offline",
            "source_commits": [l.split()[0] for l in HOOK_COMMITS],
            "add_only": True,
        },
        "engines": [
            {"name": n, "path": ENGINE_INFO[n][0], "serves_properties": sorted(p), "kind_free_text": ENGINE_INFO[n][1]}
            for n, p in sorted(engines.items())
        ],
        "checks": checks,
        "not_applicable": [{"property_id": p, "reason": r} for p, r in sorted(NOT_YET.items()) if p not in CHECKS],
        "notes": "All checks: exit 0 = held, 1 = VIOLATION line printed, 2 = inconclusive (watchdog/build trouble). VERIF_SEED seeds every generator. Known findings: /verif/known_findings.jsonl.",
    }
    json.dump(manifest, open("/verif/MANIFEST.json", "w"), indent=1)
    print("wrote MANIFEST.json with", len(checks), "checks")

main()

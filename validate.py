#!/opt/veriftools/pyvenv/bin/python
import json, jsonschema, sys, glob
m = json.load(open('/verif/MANIFEST.json'))
jsonschema.validate(m, json.load(open('/root/.vp/MANIFEST.schema.json')))
es = json.load(open('/root/.vp/EVIDENCE.schema.json'))
bad = 0
for c in m['checks']:
    p = c['evidence_file']
    try:
        jsonschema.validate(json.load(open(p)), es)
    except Exception as e:
        bad += 1
        print('EVIDENCE INVALID', p, str(e)[:200])
ids = {json.loads(l)['id'] for l in open('/verif/properties.jsonl')}
claimed = {c['property_id'] for c in m['checks']}
na = {n['property_id'] for n in m.get('not_applicable', [])}
print('claimed', len(claimed), 'n/a', len(na), 'unaccounted', sorted(ids - claimed - na), 'bad evidence', bad)

#!/bin/bash
# run_all.sh [seed] [tier] : every registered check on the current tree; prints one line per check
cd /verif
export VERIF_SEED=${1:-1}
TIER=${2:-quick}
for id in C01 C02 C03 C04 C05 C06 C07 C08 C09 C10 C11 C12 C13 C14 C15 C16 C17 C18 C19 C20; do
  s=$(date +%s)
  ./check $id --tier $TIER > /tmp/runall-$id.log 2>&1
  rc=$?
  echo "$id seed=$VERIF_SEED exit=$rc $(( $(date +%s)-s ))s violations=$(grep -c '^VIOLATION' /tmp/runall-$id.log) known=$(grep -c '^KNOWN-FINDING' /tmp/runall-$id.log)"
done

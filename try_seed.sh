#!/bin/bash
# try_seed.sh <patch> <check ids...> : apply patch to /repo, run the quick checks, revert
PATCH=$1; shift
cd /repo && git apply "$PATCH" || { echo "patch failed"; exit 2; }
cd /verif
for id in "$@"; do
  START=$(date +%s)
  OUT=$(./check $id --tier quick 2>&1 | grep -E 'VIOLATION|KNOWN-FINDING|INCONCLUSIVE|fxv:' | cut -c1-300 | head -3)
  echo "[$id] $(( $(date +%s) - START ))s: ${OUT:-silent}"
done
git -C /repo checkout -- . && git -C /repo status --short | head -2

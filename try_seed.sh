#!/bin/bash
# try_seed.sh <patch> <check ids...> : apply patch to /repo, run the quick checks, revert
PATCH=$1; shift
cd /repo && git apply "$PATCH" || { echo "patch failed"; exit 2; }
cd /verif
rm -rf /dev/shm/fxv-evidence-backup; cp -r evidence /dev/shm/fxv-evidence-backup
for id in "$@"; do
  START=$(date +%s)
  OUT=$(./check $id --tier quick 2>&1 | grep -E 'VIOLATION|KNOWN-FINDING|INCONCLUSIVE|fxv:' | cut -c1-300 | head -3)
  echo "[$id] $(( $(date +%s) - START ))s: ${OUT:-silent}"
done
rm -rf evidence; cp -r /dev/shm/fxv-evidence-backup evidence; rm -rf /dev/shm/fxv-evidence-backup
git -C /repo checkout -- . && git -C /repo status --short | head -2

#!/bin/bash
# keep_seed.sh <worktree> <seed-id> <property> "<needs>" "<caught by>" "<missed by>"
WT=$1; ID=$2; PROP=$3; NEEDS=$4; CAUGHT=$5; MISSED=${6:-}
D=/verif/seeded/$ID; mkdir -p $D
cp $WT/_seeded/patch.diff $D/patch.diff
for f in $WT/_seeded/*; do case "$f" in *patch.diff) ;; *) cp -r "$f" $D/ ;; esac; done
python3 - "$D" "$ID" "$PROP" "$NEEDS" "$CAUGHT" "$MISSED" <<'PY'
import json,sys
d,i,p,n,c,m=sys.argv[1:7]
json.dump({"seed":i,"breaks_property":p,"needs_to_manifest":n,
 "confirmed":"confirm_seed.sh: existing suite passes with the change (322 tests), demo fails with it and passes without it",
 "checks_run":"try_seed.sh: git -C /repo apply patch.diff; ./check <id> --tier quick; git -C /repo checkout -- .",
 "caught_by":[x for x in c.split(',') if x],"missed_by":[x for x in m.split(',') if x]}, open(d+"/meta.json","w"), indent=1)
PY
echo kept $D; ls $D

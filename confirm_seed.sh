#!/bin/bash
# confirm_seed.sh <worktree> : confirms a seeded change (suite passes with it, demo fails with it, passes without it)
# usage: confirm_seed.sh /tmp/wt-C01 [demo-test-name]
set -u
WT=$1
cd "$WT" || exit 2
export CARGO_NET_OFFLINE=true
git stash list >/dev/null
# make sure the change is applied
if git diff --quiet -- src; then git apply _seeded/patch.diff || { echo "patch does not apply"; exit 2; }; fi
echo "== changed files:"; git diff --stat -- src | tail -3
echo "== suite with change"
cargo test --workspace --no-fail-fast --offline 2>&1 | grep -E '^test result|FAILED|failed' | head -8
DEMO=$(ls _seeded/*.rs 2>/dev/null | head -1)
if [ -n "$DEMO" ]; then
  mkdir -p tests; cp "$DEMO" tests/seeded_demo.rs
  echo "== demo with change (expect FAIL)"
  cargo test --offline --test seeded_demo 2>&1 | grep -E '^test result|panicked|FAILED' | head -5
  git apply -R _seeded/patch.diff
  echo "== demo without change (expect ok)"
  cargo test --offline --test seeded_demo 2>&1 | grep -E '^test result|panicked|FAILED' | head -5
  git apply _seeded/patch.diff
  rm -f tests/seeded_demo.rs
fi

//! fxdio <ops-file>: executes one generated DiskIO call sequence in direct-I/O mode in a process
//! whose global allocator is feoxdb's default one (jemalloc). Lines of the ops file:
//!   D <blocks>                     device size
//!   W <sector> <blocks> <seed>     write_sectors_sync of a patterned buffer
//!   R <sector> <blocks> <mode>     read_sectors_sync; mode 0 drop at once, 1 keep as Bytes and
//!                                  drop on another thread at the end, 2 keep the Vec, 3 clone the
//!                                  Bytes, drop the original here and the clone on another thread
//! Exit 0: every read returned exactly the bytes of the model and the aligned-buffer accounting
//! returned to its baseline; exit 3: oracle mismatch (message on stdout). A memory-safety
//! violation shows as death by signal.
use std::sync::Arc;

use feoxdb::storage::io::DiskIO;
use feoxdb::utils::allocator::FeoxAllocator;

const B: usize = 4096;

fn pattern(blocks: usize, seed: u8) -> Vec<u8> {
    (0..blocks * B).map(|i| (i as u8).wrapping_mul(31).wrapping_add(seed).wrapping_add((i / B) as u8)).collect()
}

fn main() {
    let path = std::env::args().nth(1).expect("ops file");
    let text = std::fs::read_to_string(&path).expect("read ops");
    let dev_path = format!("{path}.dev");
    let mut blocks = 0usize;
    let mut disk: Option<DiskIO> = None;
    let mut model: Vec<u8> = Vec::new();
    let mut kept_bytes: Vec<bytes::Bytes> = Vec::new();
    let mut kept_vecs: Vec<Vec<u8>> = Vec::new();
    let mut baseline = 0usize;
    let mut fail: Option<String> = None;
    for (ln, line) in text.lines().enumerate() {
        let f: Vec<&str> = line.split_whitespace().collect();
        if f.is_empty() {
            continue;
        }
        let n = |i: usize| -> usize { f.get(i).and_then(|s| s.parse().ok()).unwrap_or(0) };
        match f[0] {
            "D" => {
                blocks = n(1).max(32);
                let file = std::fs::OpenOptions::new().read(true).write(true).create(true).truncate(true).open(&dev_path).expect("device");
                file.set_len((blocks * B) as u64).expect("size");
                model = vec![0u8; blocks * B];
                disk = Some(DiskIO::new(Arc::new(file), true).expect("DiskIO::new"));
                baseline = FeoxAllocator::get_allocated();
            }
            "W" | "R" => {
                let Some(d) = disk.as_ref() else { continue };
                let nb = n(2).clamp(1, blocks - 16);
                let sector = 16 + n(1) % (blocks - 16 - nb + 1);
                if f[0] == "W" {
                    let data = pattern(nb, n(3) as u8);
                    match d.write_sectors_sync(sector as u64, &data) {
                        Ok(()) => model[sector * B..(sector + nb) * B].copy_from_slice(&data),
                        Err(e) => {
                            fail = Some(format!("line {ln}: write of {nb} blocks at {sector} failed: {e:?}"));
                            break;
                        }
                    }
                } else {
                    match d.read_sectors_sync(sector as u64, nb as u64) {
                        Ok(back) => {
                            if back.len() != nb * B || back[..] != model[sector * B..(sector + nb) * B] {
                                fail = Some(format!("line {ln}: read of {nb} blocks at {sector} returned {} bytes that differ from what was written", back.len()));
                                break;
                            }
                            match n(3) % 4 {
                                0 => drop(back),
                                1 => kept_bytes.push(bytes::Bytes::from(back)),
                                2 => kept_vecs.push(back),
                                _ => {
                                    let b = bytes::Bytes::from(back);
                                    kept_bytes.push(b.clone());
                                    drop(b);
                                }
                            }
                        }
                        Err(e) => {
                            fail = Some(format!("line {ln}: read of {nb} blocks at {sector} failed: {e:?}"));
                            break;
                        }
                    }
                }
            }
            _ => {}
        }
    }
    // the kept buffers die on another thread while this one keeps the heap busy
    let dropper = std::thread::spawn(move || {
        let mut sum = 0usize;
        for b in kept_bytes {
            sum += b.len();
            drop(b);
        }
        sum
    });
    for v in kept_vecs {
        let scratch = vec![0xA5u8; v.len()];
        assert_eq!(scratch[scratch.len() - 1], 0xA5);
        drop(v);
    }
    let _ = dropper.join();
    drop(disk);
    let _ = std::fs::remove_file(&dev_path);
    if fail.is_none() && FeoxAllocator::get_allocated() != baseline {
        fail = Some(format!("aligned-buffer accounting is {} after all buffers were released, {} before the first call", FeoxAllocator::get_allocated(), baseline));
    }
    match fail {
        Some(m) => {
            println!("fxdio: {m}");
            std::process::exit(3);
        }
        None => println!("fxdio: ok"),
    }
}

#!/bin/bash
# like confirm_seed.sh but for seeds whose demo is installed by _seeded/run_demo.sh
WT=$1; cd "$WT" || exit 2; export CARGO_NET_OFFLINE=true
if git diff --quiet -- src; then git apply _seeded/patch.diff || exit 2; fi
echo "== suite with change"; cargo test --workspace --no-fail-fast --offline 2>&1 | grep -E '^test result' | head -3
echo "== demo with change (expect FAIL)"; sh _seeded/run_demo.sh 2>&1 | grep -E '^test result|panicked' | head -3
git apply -R _seeded/patch.diff
echo "== demo without change (expect ok)"; sh _seeded/run_demo.sh 2>&1 | grep -E '^test result|panicked' | head -3
git apply _seeded/patch.diff

//! Engine A: single-threaded call sequences against the real store, judged by the model,
//! the store snapshot (hook H4) and the independent layout codec.

use std::collections::{BTreeMap, HashMap};
use std::sync::Arc;

use bytes::Bytes;
use feoxdb::FeoxStore;

use crate::env;
use crate::layout;
use crate::model::{self, classify, Call, ErrKind, Gen, Model, Res};
use crate::ops::*;

#[derive(Clone, Debug, Default)]
pub struct Flags {
    /// call results must be admissible (C01, C11)
    pub results: bool,
    /// store snapshot (keys, timestamps, expiries, lengths) equals the model after every step
    pub snapshot: bool,
    /// read-back through get / range after steps
    pub readback: bool,
    /// memory_usage / len exact (C13)
    pub mem: bool,
    /// automatic timestamp constraints (C12)
    pub ts: bool,
    /// block partition at quiescence (C05)
    pub partition: bool,
    /// independent decode of the file after flush (C10)
    pub layout: bool,
    /// range query exactness (C14)
    pub range: bool,
}

impl Flags {
    pub fn all() -> Self {
        Flags { results: true, snapshot: true, readback: true, mem: true, ts: true, partition: true, layout: true, range: true }
    }
}

#[derive(Clone, Debug)]
pub struct Failure {
    pub oracle: &'static str,
    pub signature: String,
    pub step: usize,
    pub msg: String,
    /// refinements used for attribution: "ttl", "oom"
    pub tags: Vec<&'static str>,
}

impl Failure {
    /// `pattern` is "oracle" or "oracle#tag"
    pub fn matches(&self, pattern: &str) -> bool {
        match pattern.split_once('#') {
            Some((o, t)) => o == self.oracle && self.tags.iter().any(|x| *x == t),
            None => pattern == self.oracle,
        }
    }
    pub fn owned_by(&self, owned: &[&str]) -> bool {
        owned.iter().any(|p| self.matches(p))
    }
}

#[derive(Clone, Debug, Default)]
pub struct CaseStats {
    pub events: BTreeMap<&'static str, u64>,
    pub ops: BTreeMap<&'static str, u64>,
    pub steps: usize,
}

impl CaseStats {
    pub fn hit(&mut self, e: &'static str) {
        *self.events.entry(e).or_insert(0) += 1;
    }
    pub fn has(&self, e: &str) -> bool {
        self.events.get(e).copied().unwrap_or(0) > 0
    }
    pub fn merge_into(&self, total: &mut BTreeMap<String, u64>) {
        for (k, v) in &self.events {
            *total.entry(format!("ev.{k}")).or_insert(0) += v;
        }
        for (k, v) in &self.ops {
            *total.entry(format!("op.{k}")).or_insert(0) += v;
        }
    }
}

pub struct RunOutput {
    pub stats: CaseStats,
    pub transcript: Vec<Res>,
    pub failure: Option<Failure>,
}

pub fn rec_overhead() -> usize {
    std::mem::size_of::<feoxdb::core::record::Record>()
}

// ------------------------------------------------------------------------------------------
// deterministic value content
// ------------------------------------------------------------------------------------------

fn mix(a: u64, b: u64) -> u64 {
    let mut x = a.wrapping_mul(0x9E3779B97F4A7C15) ^ b.wrapping_add(0x632BE59BD9B4E019);
    x ^= x >> 32;
    x = x.wrapping_mul(0xD6E8FEB86659FD93);
    x ^= x >> 29;
    x
}

pub const STAMP_MAGIC: &[u8; 4] = b"FXV!";

pub fn stamp_fill(buf: &mut [u8], key_id: u16, gen: u32) {
    let n = buf.len();
    let mut off = 0usize;
    while off < n {
        let mut chunk = [0u8; 32];
        chunk[0..4].copy_from_slice(STAMP_MAGIC);
        chunk[4..6].copy_from_slice(&key_id.to_le_bytes());
        chunk[6..10].copy_from_slice(&gen.to_le_bytes());
        chunk[10..14].copy_from_slice(&(off as u32).to_le_bytes());
        let f = mix(((key_id as u64) << 32) | gen as u64, off as u64);
        chunk[14..22].copy_from_slice(&f.to_le_bytes());
        chunk[22..30].copy_from_slice(&mix(f, 7).to_le_bytes());
        chunk[30] = b'<';
        chunk[31] = b'>';
        let take = (n - off).min(32);
        if n < 14 {
            // too short for a stamp: pseudo-random but generation-dependent bytes
            for (i, b) in buf.iter_mut().enumerate() {
                *b = (mix(((key_id as u64) << 32) | gen as u64, 1000 + i as u64) & 0xff) as u8;
            }
            return;
        }
        buf[off..off + take].copy_from_slice(&chunk[..take]);
        off += take;
    }
}

/// Check that `value` is one complete stamped generation; returns (key_id, gen).
pub fn stamp_check(value: &[u8]) -> Result<(u16, u32), String> {
    if value.len() < 14 {
        return Err("too short for stamps".into());
    }
    let key_id = u16::from_le_bytes([value[4], value[5]]);
    let gen = u32::from_le_bytes(value[6..10].try_into().unwrap());
    let mut expect = vec![0u8; value.len()];
    stamp_fill(&mut expect, key_id, gen);
    if expect == value {
        Ok((key_id, gen))
    } else {
        let at = expect.iter().zip(value).position(|(a, b)| a != b).unwrap_or(0);
        Err(format!("stamp mismatch at byte {at} (claims key {key_id} gen {gen})"))
    }
}

pub fn json_doc(key_id: u16, gen: u32, target: usize) -> Vec<u8> {
    // members in serde_json's own output order (sorted, compact): a successful patch that changes
    // nothing re-serialises to exactly these bytes
    let base = format!("{{\"extra\":{{}},\"k\":{key_id},\"n\":{gen},\"pad\":\"\"}}");
    let pad = target.saturating_sub(base.len());
    format!("{{\"extra\":{{}},\"k\":{key_id},\"n\":{gen},\"pad\":\"{}\"}}", "p".repeat(pad)).into_bytes()
}

pub fn patch_bytes(p: &PatchKind) -> Vec<u8> {
    match p {
        PatchKind::ReplaceN(x) => format!("[{{\"op\":\"replace\",\"path\":\"/n\",\"value\":{x}}}]").into_bytes(),
        PatchKind::AddField(i) => format!("[{{\"op\":\"add\",\"path\":\"/extra/f{i}\",\"value\":{i}}}]").into_bytes(),
        PatchKind::RemoveField => b"[{\"op\":\"remove\",\"path\":\"/pad\"}]".to_vec(),
        PatchKind::FailingTest => {
            b"[{\"op\":\"test\",\"path\":\"/n\",\"value\":\"nope\"},{\"op\":\"replace\",\"path\":\"/n\",\"value\":1}]".to_vec()
        }
        PatchKind::Malformed => b"this is not json".to_vec(),
        PatchKind::Empty => b"[]".to_vec(),
        PatchKind::AddSame => b"[{\"op\":\"add\",\"path\":\"/extra/same\",\"value\":1}]".to_vec(),
        PatchKind::TestSame => b"[{\"op\":\"test\",\"path\":\"/extra/same\",\"value\":1}]".to_vec(),
        PatchKind::Grow(n) => format!("[{{\"op\":\"add\",\"path\":\"/g\",\"value\":\"{}\"}}]", "g".repeat(*n as usize)).into_bytes(),
    }
}

// ------------------------------------------------------------------------------------------
// store construction
// ------------------------------------------------------------------------------------------

pub fn open_store(cfg: &Config, path: Option<&str>) -> feoxdb::Result<FeoxStore> {
    let mut b = FeoxStore::builder().hash_bits(8).enable_ttl(cfg.ttl);
    b = match cfg.max_memory {
        Some(m) => b.max_memory(m),
        None => b.no_memory_limit(),
    };
    if let Some(p) = path {
        b = b.device_path(p.to_string()).file_size(cfg.dev.blocks() * 4096).enable_caching(cfg.cache);
    }
    let _g = env::watch("open");
    env::with_visible_cpus(cfg.visible_cpus as usize, || {
        feoxdb::verif::set_thread_force_plain_io(Some(cfg.plain_io));
        b.build()
    })
}

/// Create the device file for a case: nothing for v3 (feoxdb creates it), a released-format
/// empty device for v1/v2.
pub fn prepare_device(cfg: &Config, path: &str) {
    let _ = std::fs::remove_file(path);
    if cfg.version < 3 {
        let img = layout::fresh_image(cfg.version, cfg.dev.blocks(), cfg.legacy_plain_meta);
        std::fs::write(path, img).expect("write legacy device");
    }
}

// ------------------------------------------------------------------------------------------
// the runner
// ------------------------------------------------------------------------------------------

pub struct Runner<'a> {
    pub case: &'a Case,
    pub flags: &'a Flags,
    pub cfg: Config,
    pub store: Option<FeoxStore>,
    pub path: Option<String>,
    pub model: Model,
    pub stats: CaseStats,
    pub transcript: Vec<Res>,
    gen_no: u32,
    prev_value: HashMap<Vec<u8>, Arc<Vec<u8>>>,
    gens_seen: HashMap<Vec<u8>, u32>,
    // C12 bookkeeping
    clock_max: u64,
    auto_calls: u64,
    max_explicit: HashMap<Vec<u8>, u64>,
    failed_explicit_pending: bool,
    just_reopened: bool,
    // C13 bookkeeping
    shrunk: HashMap<Vec<u8>, bool>,
    cache_read: HashMap<Vec<u8>, u8>,
    // C05: blocks that were live at an earlier quiescent point and were released since
    prev_extents: HashMap<Vec<u8>, (u64, u64)>,
    freed_blocks: std::collections::HashSet<u64>,
    // flush demand estimate (blocks) for admissible OutOfSpace
    blocks_since_flush: u64,
    pub keep_file: bool,
    pub readback_policy: Option<u64>,
    /// key touched by the last call step (for history building)
    pub last_touched: Option<Vec<u8>>,
    pub marks: Option<crate::trace::DeviceRef>,
    /// fault engine: the device whose plan may make flush fail
    pub fault_dev: Option<crate::trace::DeviceRef>,
    /// number of helper threads that call flush() at the same moment as every Op::Flush (0 = none)
    pub co_flush: usize,
    /// called (with the step) by every flusher, helper or main, the moment its flush() returned Ok
    pub co_flush_ack: Option<std::sync::Arc<dyn Fn(usize) + Send + Sync>>,
    pub poisoned: bool,
}

fn key_id_of(case: &Case, key: &[u8]) -> u16 {
    case.keys.iter().position(|k| k == key).map(|i| i as u16).unwrap_or(0xFFFF)
}

impl<'a> Runner<'a> {
    pub fn new(case: &'a Case, flags: &'a Flags) -> Result<Self, String> {
        let path = if case.cfg.persistent {
            let p = env::fresh_path("seq");
            prepare_device(&case.cfg, &p);
            Some(p)
        } else {
            None
        };
        Self::with_path(case, flags, path, None)
    }

    /// `path` must already be prepared (legacy image or empty file); `marks` receives
    /// drop/open marks of clean reopens.
    pub fn with_path(case: &'a Case, flags: &'a Flags, path: Option<String>, marks: Option<crate::trace::DeviceRef>) -> Result<Self, String> {
        let cfg = case.cfg.clone();
        let now = T0 + case.t0_offset;
        feoxdb::verif::set_thread_clock(Some(now));
        let store = open_store(&cfg, path.as_deref()).map_err(|e| format!("open failed: {e:?}"))?;
        let model = Model {
            persistent: cfg.persistent,
            version: cfg.version,
            ttl: cfg.ttl,
            max_memory: cfg.max_memory,
            rec_overhead: rec_overhead(),
            now,
            map: BTreeMap::new(),
            ttl_atomic_requires_ttl: true,
        };
        Ok(Runner {
            case,
            flags,
            cfg,
            store: Some(store),
            path,
            model,
            stats: CaseStats::default(),
            transcript: Vec::new(),
            gen_no: 0,
            prev_value: HashMap::new(),
            gens_seen: HashMap::new(),
            clock_max: 0,
            auto_calls: 0,
            max_explicit: HashMap::new(),
            failed_explicit_pending: false,
            just_reopened: false,
            shrunk: HashMap::new(),
            cache_read: HashMap::new(),
            prev_extents: HashMap::new(),
            freed_blocks: Default::default(),
            blocks_since_flush: 0,
            keep_file: false,
            readback_policy: None,
            last_touched: None,
            marks,
            fault_dev: None,
            co_flush: 0,
            co_flush_ack: None,
            poisoned: false,
        })
    }

    fn store(&self) -> &FeoxStore {
        self.store.as_ref().unwrap()
    }

    pub fn resolve_key(&self, k: KeyRef) -> Vec<u8> {
        match k {
            KeyRef::Idx(i) => {
                let n = self.case.keys.len();
                self.case.keys[(i as usize * n) >> 16].clone()
            }
            KeyRef::Empty => Vec::new(),
            KeyRef::OverRecoverable => vec![b'K'; self.model.max_recoverable_key() + 1],
            KeyRef::Huge => vec![b'H'; model::MAX_KEY + 1],
            KeyRef::AtRecoverable => vec![b'R'; self.model.max_recoverable_key()],
            KeyRef::Wide(c) => vec![b'W'; [65535usize, 65536, 65537, 70000, model::MAX_KEY][(c as usize).min(4)]],
        }
    }

    fn resolve_ts(&self, ts: TsSpec, key: &[u8]) -> Option<u64> {
        match ts {
            TsSpec::Auto => None,
            TsSpec::Zero => Some(0),
            TsSpec::Abs(t) => Some(t),
            TsSpec::RelCur(d) => {
                let base = self.model.map.get(key).map(|g| g.ts).unwrap_or(self.model.now);
                Some(add_signed(base, d).max(1))
            }
            TsSpec::RelNow(d) => Some(add_signed(self.model.now, d).max(1)),
            TsSpec::MaxMinus1 => Some(u64::MAX - 1),
            TsSpec::Max => Some(u64::MAX),
        }
    }

    fn resolve_len(&self, len: LenClass, klen: usize) -> usize {
        let over = 6 + klen + layout::header_len(self.cfg.version);
        let data_blocks = (self.cfg.dev.blocks() - 16) as usize;
        let cap_blocks = if self.cfg.persistent { (data_blocks / 4).max(1) } else { 80 };
        let cap = (cap_blocks * 4096).saturating_sub(over).max(1);
        match len {
            LenClass::Empty => 0,
            LenClass::One => 1,
            LenClass::Eight => 8,
            LenClass::Small(n) => n as usize,
            LenClass::Edge(n, d) => {
                let v = (n as usize * 4096) as i64 - over as i64 + d as i64;
                (v.max(1) as usize).min(cap)
            }
            LenClass::Multi(n, o) => {
                let v = ((n as usize - 1) * 4096 + 1 + (o as usize % 4095)) as i64 - over as i64;
                (v.max(1) as usize).min(cap)
            }
            LenClass::Big300K => (300 * 1024).min(cap),
            LenClass::Max4M => {
                if !self.cfg.persistent || self.cfg.dev == DevSize::Large {
                    model::MAX_VALUE
                } else {
                    (300 * 1024).min(cap)
                }
            }
            LenClass::Over4M => model::MAX_VALUE + 1,
            LenClass::Wide(n, o) => {
                let v = ((n as usize - 1) * 4096 + 1 + (o as usize % 4095)) as i64 - over as i64;
                (v.max(1) as usize).min(cap).min(model::MAX_VALUE)
            }
        }
    }

    pub fn make_value(&mut self, v: ValSpec, key: &[u8]) -> Arc<Vec<u8>> {
        self.gen_no += 1;
        let gen = self.gen_no;
        let key_id = key_id_of(self.case, key);
        let len = self.resolve_len(v.len, key.len());
        if len > 256 * 4096 && len <= model::MAX_VALUE {
            self.stats.hit("value.extent_over_256_blocks");
        }
        let mut out = match v.kind {
            ValKind::Counter(x) => return Arc::new(x.to_le_bytes().to_vec()),
            ValKind::Json => {
                if len == 0 || len > model::MAX_VALUE {
                    vec![b'j'; len]
                } else {
                    json_doc(key_id, gen, len)
                }
            }
            _ => {
                let mut b = vec![0u8; len];
                stamp_fill(&mut b, key_id, gen);
                b
            }
        };
        if matches!(v.kind, ValKind::HostileRecord | ValKind::HostileMarker | ValKind::HostileTombstone) && len <= model::MAX_VALUE {
            self.overlay_hostile(&mut out, v.kind, key, gen);
        }
        Arc::new(out)
    }

    /// Place byte-exact images of records / markers / tombstones on every block boundary of
    /// the extent this value will occupy, with tokens computed for the sectors the extent is
    /// predicted to land on (best fit over the current free runs).
    fn overlay_hostile(&self, value: &mut [u8], kind: ValKind, key: &[u8], gen: u32) {
        let ver = self.cfg.version;
        let over = 6 + key.len() + layout::header_len(ver);
        let blocks = (over + value.len()).div_ceil(4096);
        if blocks < 2 {
            return;
        }
        let predicted = self.predict_sector(blocks as u64);
        for b in 1..blocks {
            let Some(at) = (b * 4096).checked_sub(over).filter(|at| *at < value.len()) else {
                continue;
            };
            let sector = predicted + b as u64;
            let img: Vec<u8> = match kind {
                ValKind::HostileRecord => {
                    let ghost_key = format!("ghost-{gen}-{b}").into_bytes();
                    let room = value.len() - at;
                    let gv_len = room.saturating_sub(6 + ghost_key.len() + layout::header_len(ver)).min(64).max(1);
                    let ghost_val = vec![b'G'; gv_len];
                    let mut r = layout::encode_record(ver, sector, &ghost_key, &ghost_val, u64::MAX - 7, 0);
                    r.truncate(6 + ghost_key.len() + layout::header_len(ver) + gv_len);
                    r
                }
                ValKind::HostileMarker => {
                    let mut m = layout::encode_marker(sector, (blocks - b) as u64, 1);
                    m.truncate(19);
                    m
                }
                _ => layout::DELETED_TAG.to_vec(),
            };
            let take = img.len().min(value.len() - at);
            value[at..at + take].copy_from_slice(&img[..take]);
            if matches!(kind, ValKind::HostileTombstone) {
                // a legacy tombstone is the tag followed by zeros to the end of the block
                let end = ((b + 1) * 4096 - over).min(value.len());
                for x in &mut value[at + take..end] {
                    *x = 0;
                }
            }
        }
    }

    fn predict_sector(&self, blocks: u64) -> u64 {
        let Some(store) = self.store.as_ref() else { return 16 };
        if !self.cfg.persistent {
            return 16;
        }
        let snap = store.verif_snapshot();
        snap.free_runs
            .iter()
            .filter(|(_, n)| *n >= blocks)
            .min_by_key(|(s, n)| (*n, *s))
            .map(|(s, _)| *s)
            .unwrap_or(16)
    }

    fn resolve_bound(&self, b: BoundSpec) -> Vec<u8> {
        match b {
            BoundSpec::Empty => Vec::new(),
            BoundSpec::Key(k) => self.resolve_key(k),
            BoundSpec::KeyMinus(k) => {
                let mut key = self.resolve_key(k);
                match key.last_mut() {
                    Some(l) if *l > 0 => *l -= 1,
                    Some(_) => {
                        key.pop();
                    }
                    None => {}
                }
                key
            }
            BoundSpec::KeyPlus(k) => {
                let mut key = self.resolve_key(k);
                if key.len() <= model::MAX_KEY {
                    key.push(0);
                }
                key
            }
            BoundSpec::AllFf => vec![0xff; 4100],
        }
    }

    fn resolve(&mut self, op: &Op) -> Option<Call> {
        Some(match op {
            Op::Insert { k, v, ts, bytes } => {
                let key = self.resolve_key(*k);
                let value = self.make_value(*v, &key);
                Call::Insert { ts: self.resolve_ts(*ts, &key), key, value, bytes: *bytes }
            }
            Op::InsertTtl { k, v, ttl, ts, bytes } => {
                let key = self.resolve_key(*k);
                let value = self.make_value(*v, &key);
                Call::InsertTtl { ts: self.resolve_ts(*ts, &key), key, value, ttl: *ttl, bytes: *bytes }
            }
            Op::Get { k, bytes } => Call::Get { key: self.resolve_key(*k), bytes: *bytes },
            Op::GetSize { k } => Call::GetSize { key: self.resolve_key(*k) },
            Op::Contains { k } => Call::Contains { key: self.resolve_key(*k) },
            Op::Delete { k, ts } => {
                let key = self.resolve_key(*k);
                Call::Delete { ts: self.resolve_ts(*ts, &key), key }
            }
            Op::Cas { k, expect, v, ts, ttl } => {
                let key = self.resolve_key(*k);
                let expected = match expect {
                    Expect::Current => self.model.map.get(&key).map(|g| g.value.clone()).unwrap_or_else(|| Arc::new(b"none".to_vec())),
                    Expect::Stale => self.prev_value.get(&key).cloned().unwrap_or_else(|| Arc::new(b"stale".to_vec())),
                    Expect::Random(x) => Arc::new(vec![*x; 3]),
                };
                let value = self.make_value(*v, &key);
                Call::Cas { ts: self.resolve_ts(*ts, &key), key, expected, value, ttl: *ttl }
            }
            Op::Incr { k, delta, ts, ttl } => {
                let key = self.resolve_key(*k);
                Call::Incr { ts: self.resolve_ts(*ts, &key), key, delta: *delta, ttl: *ttl }
            }
            Op::InsertIfAbsent { k, v } => {
                let key = self.resolve_key(*k);
                let value = self.make_value(*v, &key);
                Call::InsertIfAbsent { key, value }
            }
            Op::JsonPatch { k, patch, ts } => {
                let key = self.resolve_key(*k);
                Call::JsonPatch { ts: self.resolve_ts(*ts, &key), key, patch: patch_bytes(patch) }
            }
            Op::UpdateTtl { k, ttl } => Call::UpdateTtl { key: self.resolve_key(*k), ttl: *ttl },
            Op::Persist { k } => Call::Persist { key: self.resolve_key(*k) },
            Op::GetTtl { k } => Call::GetTtl { key: self.resolve_key(*k) },
            Op::Range { start, end, limit } => Call::Range {
                start: self.resolve_bound(*start),
                end: self.resolve_bound(*end),
                limit: if *limit == u32::MAX { usize::MAX } else { *limit as usize },
            },
            Op::Flush | Op::Reopen { .. } | Op::Advance(_) | Op::Sleep => return None,
        })
    }

    pub fn exec(store: &FeoxStore, call: &Call) -> Res {
        fn b(r: feoxdb::Result<bool>) -> Res {
            match r {
                Ok(x) => Res::Bool(x),
                Err(e) => Res::Err(classify(&e)),
            }
        }
        fn u(r: feoxdb::Result<()>) -> Res {
            match r {
                Ok(()) => Res::Unit,
                Err(e) => Res::Err(classify(&e)),
            }
        }
        let _g = env::watch("store call");
        match call {
            Call::Insert { key, value, ts, bytes } => {
                if *bytes {
                    let v = Bytes::from(value.as_ref().clone());
                    match ts {
                        None => b(store.insert_bytes(key, v)),
                        t => b(store.insert_bytes_with_timestamp(key, v, *t)),
                    }
                } else {
                    match ts {
                        None => b(store.insert(key, value)),
                        t => b(store.insert_with_timestamp(key, value, *t)),
                    }
                }
            }
            Call::InsertTtl { key, value, ttl, ts, bytes } => {
                if *bytes {
                    let v = Bytes::from(value.as_ref().clone());
                    match ts {
                        None => b(store.insert_bytes_with_ttl(key, v, *ttl)),
                        t => b(store.insert_bytes_with_ttl_and_timestamp(key, v, *ttl, *t)),
                    }
                } else {
                    match ts {
                        None => b(store.insert_with_ttl(key, value, *ttl)),
                        t => b(store.insert_with_ttl_and_timestamp(key, value, *ttl, *t)),
                    }
                }
            }
            Call::Get { key, bytes } => {
                let r = if *bytes { store.get_bytes(key).map(|x| x.to_vec()) } else { store.get(key) };
                match r {
                    Ok(v) => Res::Bytes(v),
                    Err(e) => Res::Err(classify(&e)),
                }
            }
            Call::GetSize { key } => match store.get_size(key) {
                Ok(n) => Res::Size(n),
                Err(e) => Res::Err(classify(&e)),
            },
            Call::Contains { key } => Res::Bool(store.contains_key(key)),
            Call::Delete { key, ts } => match ts {
                None => u(store.delete(key)),
                t => u(store.delete_with_timestamp(key, *t)),
            },
            Call::Cas { key, expected, value, ts, ttl } => match (ts, ttl) {
                (None, None) => b(store.compare_and_swap(key, expected, value)),
                (t, None) => b(store.compare_and_swap_with_timestamp(key, expected, value, *t)),
                (None, Some(ttl)) => b(store.compare_and_swap_with_ttl(key, expected, value, *ttl)),
                (t, Some(ttl)) => b(store.compare_and_swap_with_timestamp_and_ttl(key, expected, value, *t, *ttl)),
            },
            Call::Incr { key, delta, ts, ttl } => {
                let r = match (ts, ttl) {
                    (None, None) => store.atomic_increment(key, *delta),
                    (t, None) => store.atomic_increment_with_timestamp(key, *delta, *t),
                    (None, Some(ttl)) => store.atomic_increment_with_ttl(key, *delta, *ttl),
                    (t, Some(ttl)) => store.atomic_increment_with_timestamp_and_ttl(key, *delta, *t, *ttl),
                };
                match r {
                    Ok(x) => Res::I64(x),
                    Err(e) => Res::Err(classify(&e)),
                }
            }
            Call::InsertIfAbsent { key, value } => b(store.insert_if_absent(key, value)),
            Call::JsonPatch { key, patch, ts } => match ts {
                None => u(store.json_patch(key, patch)),
                t => u(store.json_patch_with_timestamp(key, patch, *t)),
            },
            Call::UpdateTtl { key, ttl } => u(store.update_ttl(key, *ttl)),
            Call::Persist { key } => u(store.persist(key)),
            Call::GetTtl { key } => match store.get_ttl(key) {
                Ok(x) => Res::OptU64(x),
                Err(e) => Res::Err(classify(&e)),
            },
            Call::Range { start, end, limit } => match store.range_query(start, end, *limit) {
                Ok(p) => Res::Pairs(p),
                Err(e) => Res::Err(classify(&e)),
            },
        }
    }

    fn fail(&self, oracle: &'static str, signature: &str, step: usize, msg: String) -> Failure {
        Failure { oracle, signature: signature.to_string(), step, msg, tags: Vec::new() }
    }

    fn tag(mut f: Failure, tag: &'static str, on: bool) -> Failure {
        if on {
            f.tags.push(tag);
        }
        f
    }

    fn res_matches(&self, got: &Res, want: &Res, json_ok: bool) -> bool {
        if got == want {
            return true;
        }
        if json_ok {
            if let (Res::Bytes(a), Res::Bytes(b)) = (got, want) {
                return model::json_equal(a, b);
            }
        }
        false
    }

    /// One model step for a store call; returns Err on an oracle failure.
    fn step_call(&mut self, step: usize, call: &Call) -> Result<(), Failure> {
        let key = call.key().map(|k| k.to_vec());
        let pre_peek = key.as_ref().and_then(|k| self.store().verif_peek(k));
        if let Some(p) = &pre_peek {
            if p.value_len > 256 * 4096 && p.sector != 0 && !matches!(call, Call::Get { .. }) {
                self.stats.hit("modify.key_with_durable_extent_over_256_blocks");
            }
        }
        // tier bookkeeping for reads
        if let (Call::Get { key, .. }, Some(p)) = (call, &pre_peek) {
            let tier = if p.resident { "read.mem" } else if p.cached { "read.cache" } else { "read.disk" };
            self.stats.hit(tier);
            if !p.resident && self.gens_seen.get(key).copied().unwrap_or(0) >= 2 {
                self.stats.hit("read_offloaded_after_modify");
            }
        }
        if let (Some(p), true) = (&pre_peek, matches!(call, Call::Cas { .. } | Call::Incr { .. } | Call::JsonPatch { .. } | Call::UpdateTtl { .. } | Call::Persist { .. })) {
            if !p.resident {
                self.stats.hit("rmw_on_offloaded");
                if matches!(call, Call::UpdateTtl { .. } | Call::Persist { .. }) {
                    self.stats.hit("ttl_update_on_offloaded");
                }
            }
        }
        if let Call::Range { start, end, limit } = call {
            if start <= end && start.len() <= model::MAX_KEY && end.len() <= model::MAX_KEY {
                let inside: Vec<(&Vec<u8>, &Gen)> = self.model.map.range(start.clone()..=end.clone()).collect();
                let live = inside.iter().filter(|(_, g)| !self.model.expired(g)).count();
                let expired = inside.len() - live;
                if live > 0 {
                    self.stats.hit("range_nonempty");
                }
                if expired > 0 && live > 0 {
                    self.stats.hit("range_with_expired_inside");
                }
                if inside.len() > 256 {
                    self.stats.hit("range_over_256_index_entries");
                    if expired > 0 {
                        self.stats.hit("range_over_256_index_entries_with_expired");
                    }
                }
                if *limit > 0 && *limit < live {
                    self.stats.hit("range_limit_cut");
                    if expired > 0 {
                        self.stats.hit("range_limit_cut_with_expired");
                    }
                }
                if live > 0 && self.cfg.persistent {
                    let offloaded = inside.iter().any(|(k, _)| self.store().verif_peek(k).is_some_and(|p| !p.resident));
                    if offloaded {
                        self.stats.hit("range_over_offloaded");
                    }
                }
            }
        }
        if let (Call::Get { key, .. }, Some(p)) = (call, &pre_peek) {
            if !p.resident && p.cached {
                self.cache_read.insert(key.clone(), 1);
            } else if self.cache_read.get(key).copied() == Some(2) {
                self.stats.hit("cached_then_modified_then_read");
                self.cache_read.remove(key);
            }
        }
        if is_auto_call(call) {
            self.auto_calls += 1;
        }
        let pre_mem = 0usize;
        let got = Self::exec(self.store(), call);
        let post_peek = key.as_ref().and_then(|k| self.store().verif_peek(k));
        let observed = post_peek.as_ref().map(|p| p.timestamp);

        // model: present reading first, then (for expired-present keys) the absent reading
        let expired_present = key.as_ref().and_then(|k| self.model.map.get(k)).is_some_and(|g| self.model.expired(g));
        let json_ok = key.as_ref().and_then(|k| self.model.map.get(k)).is_some_and(|g| g.json_derived);
        let prev_gen = key.as_ref().and_then(|k| self.model.map.get(k).cloned());
        // huge key universes without a memory limit: a single-key call only reads and writes its
        // own entry, so the trial model carries just that entry instead of a copy of the whole map
        let narrow = self.model.map.len() > 600 && self.model.max_memory.is_none() && key.is_some() && !matches!(call, Call::Range { .. });
        let narrowed = |m: &Model, k: &Vec<u8>| -> Model {
            let mut map = BTreeMap::new();
            if let Some(g) = m.map.get(k) {
                map.insert(k.clone(), g.clone());
            }
            Model { persistent: m.persistent, version: m.version, ttl: m.ttl, max_memory: m.max_memory, rec_overhead: m.rec_overhead, now: m.now, map, ttl_atomic_requires_ttl: m.ttl_atomic_requires_ttl }
        };
        let mut trial = if narrow { narrowed(&self.model, key.as_ref().unwrap()) } else { self.model.clone() };
        let outcome = trial.apply(call, observed);
        let mut accepted = outcome.admissible.iter().any(|w| self.res_matches(&got, w, json_ok));
        let mut effects = outcome.effects;
        let mut admissible = outcome.admissible;
        if !accepted && expired_present {
            let mut alt = if narrow { narrowed(&self.model, key.as_ref().unwrap()) } else { self.model.clone() };
            alt.map.remove(key.as_ref().unwrap());
            let o2 = alt.apply(call, observed);
            if o2.admissible.iter().any(|w| self.res_matches(&got, w, false)) {
                accepted = true;
                trial = alt;
                effects = o2.effects;
                self.stats.hit("absent_reading_taken");
            } else {
                admissible.extend(o2.admissible);
            }
        }
        self.transcript.push(got.clone());
        if !accepted {
            // which oracle owns this mismatch?
            let auto_older = matches!(got, Res::Err(ErrKind::OlderTimestamp))
                && is_auto_call(call)
                && !admissible.contains(&Res::Err(ErrKind::OlderTimestamp));
            let (oracle, sig) = if auto_older {
                ("ts", "auto-rejected-as-older")
            } else if matches!(call, Call::Range { .. }) {
                ("range", "range-result")
            } else {
                ("results", "call-result")
            };
            if (oracle == "ts" && self.flags.ts) || (oracle == "range" && (self.flags.range || self.flags.results)) || (oracle == "results" && self.flags.results) {
                let oom = Res::Err(ErrKind::OutOfMemory);
                let oom_related = got == oom || admissible.contains(&oom);
                let ttl_related = is_ttl_call(call)
                    || prev_gen.as_ref().is_some_and(|g| g.expiry > 0)
                    || post_peek.as_ref().is_some_and(|p| p.expiry > 0)
                    || matches!(call, Call::Range { .. }) && self.model.map.values().any(|g| g.expiry > 0);
                return Err(Self::tag(Self::tag(self.fail(
                    oracle,
                    sig,
                    step,
                    format!(
                        "{} returned {} but the model admits {:?} (now={}, cur={:?})",
                        call.brief(),
                        got.brief(),
                        admissible.iter().map(|r| r.brief()).collect::<Vec<_>>(),
                        self.model.now,
                        prev_gen.as_ref().map(|g| (g.value.len(), g.ts, g.expiry))
                    ),
                ), "oom", oom_related), "ttl", ttl_related));
            }
            // not judged by this check: the model is out of sync, stop the case quietly
            return Err(self.fail("foreign", "foreign", step, format!("{} -> {}", call.brief(), got.brief())));
        }
        if narrow {
            let k = key.as_ref().unwrap();
            self.model.now = trial.now;
            match trial.map.remove(k) {
                Some(g) => {
                    self.model.map.insert(k.clone(), g);
                }
                None => {
                    self.model.map.remove(k);
                }
            }
        } else {
            self.model = trial;
        }

        // bookkeeping
        if matches!(got, Res::Err(_)) {
            self.stats.hit("call_error");
            if let Res::Err(ErrKind::OlderTimestamp) = got {
                self.stats.hit("older_ts_rejection");
            }
            if let Res::Err(ErrKind::OutOfMemory) = got {
                self.stats.hit("refused_oom");
            }
            if explicit_ts_of(call).is_some_and(|t| t > self.clock_max.max(self.model.now)) {
                self.failed_explicit_pending = true;
                self.stats.hit("failed_call_with_future_ts");
            }
        }
        if effects.lazily_retired {
            self.stats.hit("lazy_retire");
        }
        if effects.modified {
            if let Some(k) = &key {
                if self.cache_read.get(k).copied() == Some(1) {
                    self.cache_read.insert(k.clone(), 2);
                }
                if let Some(prev) = &prev_gen {
                    self.prev_value.insert(k.clone(), prev.value.clone());
                    let new_len = self.model.map.get(k).map(|g| g.value.len());
                    if let Some(n) = new_len {
                        if n < prev.value.len() {
                            self.shrunk.insert(k.clone(), true);
                            self.stats.hit("shrinking_update");
                        } else if n > prev.value.len() && self.shrunk.get(k).copied().unwrap_or(false) {
                            self.stats.hit("grow_after_shrink");
                        }
                    }
                }
                if let Some(g) = self.model.map.get(k) {
                    *self.gens_seen.entry(k.clone()).or_insert(0) += 1;
                    self.blocks_since_flush += layout::record_blocks(self.cfg.version, k.len(), g.value.len()) as u64;
                    if g.value.len() + k.len() + 30 > 4096 {
                        self.stats.hit("multi_block_write");
                    }
                } else {
                    self.stats.hit("delete_accepted");
                }
            }
        }

        // C12: automatic timestamp constraints
        if self.flags.ts {
            if let Some(assigned) = effects.auto_assigned {
                let k = key.as_ref().unwrap();
                if let Some(prev) = effects.prev_ts {
                    if assigned <= prev {
                        return Err(self.fail("ts", "auto-not-above-previous", step, format!("{}: automatic timestamp {assigned} is not above the key's previous timestamp {prev}", call.brief())));
                    }
                }
                if let Some(me) = self.max_explicit.get(k) {
                    // u64::MAX cannot be exceeded: a key pinned there is outside this clause
                    if assigned <= *me && *me != u64::MAX {
                        return Err(self.fail("ts", "auto-not-above-explicit", step, format!("{}: automatic timestamp {assigned} is not above explicit timestamp {me} accepted earlier for this key", call.brief())));
                    }
                }
                let own_pin = effects.prev_ts.is_some_and(|p| p >= u64::MAX - 1) || self.max_explicit.get(k).is_some_and(|m| *m >= u64::MAX - 1);
                if assigned == u64::MAX && !own_pin && env::is_known("C12", "auto-saturated-by-other-key") {
                    // listed known finding: excluded by construction (counted), the search continues
                    self.stats.hit("known.auto-saturated-by-other-key");
                } else if assigned == u64::MAX && !own_pin {
                    return Err(self.fail("ts", "auto-saturated-by-other-key", step, format!("{}: key was assigned the maximum timestamp although it was never given one (clock shard saturated by another key)", call.brief())));
                }
                // every automatic call, accepted or not, may tick the key's clock shard once
                let bound = self.model.now.max(self.clock_max).saturating_add(self.auto_calls + 1);
                if assigned > bound {
                    return Err(self.fail("ts", "auto-above-clock-bound", step, format!("{}: automatic timestamp {assigned} exceeds max(now={}, highest accepted timestamp {}) + {} automatic calls + 1: a timestamp that was never accepted was absorbed into the clock", call.brief(), self.model.now, self.clock_max, self.auto_calls)));
                }
                if effects.prev_ts.is_some_and(|p| p > self.model.now) {
                    self.stats.hit("auto_after_future_ts");
                }
                if self.just_reopened {
                    self.stats.hit("auto_after_reopen");
                }
                if self.failed_explicit_pending {
                    self.stats.hit("auto_after_failed_explicit");
                }
                self.clock_max = self.clock_max.max(assigned);
            }
        } else if let Some(assigned) = effects.auto_assigned {
            self.clock_max = self.clock_max.max(assigned);
        }
        for t in &effects.observed_ts {
            self.clock_max = self.clock_max.max(*t);
        }
        if effects.modified {
            if let (Some(k), Some(t)) = (&key, explicit_ts_of(call)) {
                let e = self.max_explicit.entry(k.clone()).or_insert(0);
                *e = (*e).max(t);
            }
        }

        // C13: a refused write changes nothing (checked through the counters below as well)
        let _ = pre_mem;
        Ok(())
    }

    /// Compare the store's physical contents with the model (non-perturbing).
    fn check_snapshot(&mut self, step: usize, what: &str) -> Result<(), Failure> {
        // nothing to compare and nothing that could have expired: skip the O(keys) snapshot
        if !self.flags.snapshot && !self.flags.mem && !self.model.map.values().any(|g| g.expiry > 0) && self.model.map.len() > 600 {
            return Ok(());
        }
        let snap = self.store().verif_snapshot();
        // expired-present generations may vanish at any time (lazy retirement): re-sync
        let present: std::collections::HashSet<&Vec<u8>> = snap.records.iter().map(|r| &r.key).collect();
        let gone: Vec<Vec<u8>> = self
            .model
            .map
            .iter()
            .filter(|(k, g)| self.model.expired(g) && !present.contains(k))
            .map(|(k, _)| k.clone())
            .collect();
        for k in gone {
            self.model.map.remove(&k);
            self.stats.hit("expired_vanished");
        }
        if self.flags.snapshot {
            let model_keys: Vec<&Vec<u8>> = self.model.map.keys().collect();
            let snap_keys: Vec<&Vec<u8>> = snap.records.iter().map(|r| &r.key).collect();
            if model_keys != snap_keys {
                let missing: Vec<String> = model_keys.iter().filter(|k| !snap_keys.contains(k)).map(|k| model::short(k)).collect();
                let extra: Vec<String> = snap_keys.iter().filter(|k| !model_keys.contains(k)).map(|k| model::short(k)).collect();
                let ttl_related = self.model.map.iter().any(|(k, g)| g.expiry > 0 && !snap_keys.contains(&k))
                    || snap.records.iter().any(|r| r.expiry > 0 && !model_keys.contains(&&r.key));
                return Err(Self::tag(self.fail("snapshot", "key-set", step, format!("after {what}: stored keys differ from the model: missing {missing:?}, unexpected {extra:?}")), "ttl", ttl_related));
            }
            for r in &snap.records {
                let g = &self.model.map[&r.key];
                if r.timestamp != g.ts || r.expiry != g.expiry || r.value_len != g.value.len() {
                    let ttl_related = r.expiry != g.expiry || r.expiry > 0;
                    let ts_related = r.timestamp != g.ts;
                    return Err(Self::tag(Self::tag(self.fail(
                        "snapshot",
                        "generation-metadata",
                        step,
                        format!(
                            "after {what}: key {} has (ts={}, expiry={}, len={}) but the model has (ts={}, expiry={}, len={})",
                            model::short(&r.key), r.timestamp, r.expiry, r.value_len, g.ts, g.expiry, g.value.len()
                        ),
                    ), "ttl", ttl_related), "ts", ts_related));
                }
            }
            if snap.tree_keys.len() != snap.records.len() || snap.tree_keys.iter().zip(&snap.records).any(|(a, b)| a != &b.key) {
                return Err(self.fail("snapshot", "index-disagreement", step, format!("after {what}: ordered index and hash index hold different key sets")));
            }
        }
        if self.flags.mem {
            let usage = self.store().memory_usage();
            let len = self.store().len();
            let want = self.model.memory_usage();
            if usage != want || len != self.model.map.len() {
                return Err(self.fail(
                    "mem",
                    "memory-accounting",
                    step,
                    format!("after {what}: memory_usage()={usage} len()={len} but the stored keys sum to {want} bytes in {} records", self.model.map.len()),
                ));
            }
        }
        Ok(())
    }

    fn readback_key(&mut self, step: usize, key: &[u8], what: &str) -> Result<(), Failure> {
        if key.is_empty() || key.len() > model::MAX_KEY {
            return Ok(());
        }
        let got = {
            let _g = env::watch("readback get");
            self.store().get(key)
        };
        let want = self.model.live(key);
        let ok = match (&got, want) {
            (Ok(v), Some(g)) => v == g.value.as_ref() || (g.json_derived && model::json_equal(v, &g.value)),
            (Err(feoxdb::FeoxError::KeyNotFound), None) => true,
            _ => false,
        };
        if !ok {
            let ttl_related = self.model.map.get(key).is_some_and(|g| g.expiry > 0);
            return Err(Self::tag(self.fail(
                "readback",
                "readback-get",
                step,
                format!(
                    "after {what}: get({}) = {} but the model has {:?}",
                    model::short(key),
                    match &got {
                        Ok(v) => format!("Ok({}B head={:?})", v.len(), &v[..v.len().min(16)]),
                        Err(e) => format!("Err({e:?})"),
                    },
                    want.map(|g| (g.value.len(), g.ts, g.expiry))
                ),
            ), "ttl", ttl_related));
        }
        Ok(())
    }

    fn readback_all(&mut self, step: usize, what: &str) -> Result<(), Failure> {
        let keys: Vec<Vec<u8>> = self.case.keys.clone();
        for k in &keys {
            self.readback_key(step, k, what)?;
        }
        let got = {
            let _g = env::watch("readback range");
            self.store().range_query(b"", &[0xff; 4100], usize::MAX)
        };
        let want = self.model.range(b"", &[0xff; 4100], usize::MAX);
        match got {
            Ok(p) => {
                let same = p.len() == want.len()
                    && p.iter().zip(&want).all(|((k1, v1), (k2, v2))| {
                        k1 == k2 && (v1 == v2 || (self.model.map.get(k1).is_some_and(|g| g.json_derived) && model::json_equal(v1, v2)))
                    });
                if !same {
                    let ttl_related = self.model.map.values().any(|g| g.expiry > 0);
                    return Err(Self::tag(self.fail(
                        "readback",
                        "readback-range",
                        step,
                        format!(
                            "after {what}: full range query returned keys {:?} but the model has {:?}",
                            p.iter().map(|(k, v)| (model::short(k), v.len())).collect::<Vec<_>>(),
                            want.iter().map(|(k, v)| (model::short(k), v.len())).collect::<Vec<_>>()
                        ),
                    ), "ttl", ttl_related));
                }
            }
            Err(e) => return Err(self.fail("readback", "readback-range", step, format!("after {what}: full range query failed: {e:?}"))),
        }
        Ok(())
    }

    /// C05: exact partition of the data area at a quiescent point.
    fn check_partition(&mut self, step: usize) -> Result<(), Failure> {
        let snap = self.store().verif_snapshot();
        let total = snap.device_size / 4096;
        let ver = snap.format_version;
        if snap.retirements_pending != 0 || snap.shard_pending.iter().any(|n| *n != 0) {
            return Err(self.fail("partition", "not-quiescent-after-flush", step, format!("flush() returned Ok but {} retirements and {:?} buffered entries are still pending", snap.retirements_pending, snap.shard_pending)));
        }
        let mut owner: Vec<u8> = vec![0; total as usize]; // 0 none, 1 live, 2 free
        let mut live_blocks = 0u64;
        for r in &snap.records {
            let blocks = layout::record_blocks(ver, r.key.len(), r.value_len) as u64;
            if r.sector == 0 {
                return Err(self.fail("partition", "live-record-without-extent", step, format!("after flush: key {} has no extent", model::short(&r.key))));
            }
            if r.sector < 16 || r.sector + blocks > total {
                return Err(self.fail("partition", "extent-out-of-bounds", step, format!("key {} extent {}+{} outside the data area 16..{}", model::short(&r.key), r.sector, blocks, total)));
            }
            for b in r.sector..r.sector + blocks {
                if owner[b as usize] != 0 {
                    return Err(self.fail("partition", "block-doubly-owned", step, format!("block {b} belongs to two live records (second: {})", model::short(&r.key))));
                }
                owner[b as usize] = 1;
            }
            live_blocks += blocks;
        }
        let mut prev_end = 0u64;
        let mut free_blocks = 0u64;
        for (s, n) in &snap.free_runs {
            if *s < 16 || s + n > total || *n == 0 {
                return Err(self.fail("partition", "free-run-out-of-bounds", step, format!("free run {s}+{n} outside the data area")));
            }
            if *s == prev_end && prev_end != 0 {
                return Err(self.fail("partition", "free-runs-not-merged", step, format!("adjacent free runs ending/starting at {s} are not merged")));
            }
            prev_end = s + n;
            for b in *s..s + n {
                if owner[b as usize] != 0 {
                    return Err(self.fail("partition", "block-live-and-free", step, format!("block {b} is both in a live extent and in the free pool")));
                }
                owner[b as usize] = 2;
            }
            free_blocks += n;
        }
        if let Some(b) = (16..total).find(|b| owner[*b as usize] == 0) {
            return Err(self.fail("partition", "block-leaked", step, format!("block {b} belongs to no live record and is not free ({} live + {} free of {} data blocks)", live_blocks, free_blocks, total - 16)));
        }
        if snap.disk_usage != live_blocks * 4096 {
            return Err(self.fail("partition", "disk-usage-counter", step, format!("disk usage counter {} != live blocks {} * 4096", snap.disk_usage, live_blocks)));
        }
        // persisted counters
        if let Some(path) = &self.path {
            let img = std::fs::read(path).map_err(|e| self.fail("partition", "io", step, format!("read device: {e}")))?;
            let copies = [layout::decode_meta(&img[0..4096]), layout::decode_meta(&img[7 * 4096..8 * 4096])];
            let newest = copies.iter().flatten().max_by_key(|m| m.generation);
            match newest {
                Some(m) => {
                    if m.records != snap.records.len() as u64 || m.size != live_blocks * 4096 {
                        return Err(self.fail("partition", "persisted-counters", step, format!("persisted counters (records={}, size={}) != live totals (records={}, size={})", m.records, m.size, snap.records.len(), live_blocks * 4096)));
                    }
                }
                None => return Err(self.fail("partition", "no-valid-metadata", step, "no valid metadata copy after flush".into())),
            }
        }
        if snap.free_runs.len() > 1 {
            self.stats.hit("partition_fragmented");
        }
        if self.stats.has("flush_out_of_space") {
            self.stats.hit("partition_after_out_of_space");
        }
        if snap.records.is_empty() {
            // a device emptied by deletes: the whole data area must be one free run again
            if snap.free_runs != vec![(16, total - 16)] {
                return Err(self.fail("partition", "emptied-device-not-fully-free", step, format!("all keys are deleted and flushed but the free pool is {:?} instead of the whole data area 16+{}", snap.free_runs, total - 16)));
            }
            if self.stats.has("multi_block_write") {
                self.stats.hit("emptied_device_fully_free");
            }
        }
        let mut now_extents: HashMap<Vec<u8>, (u64, u64)> = HashMap::new();
        for r in &snap.records {
            now_extents.insert(r.key.clone(), (r.sector, layout::record_blocks(ver, r.key.len(), r.value_len) as u64));
        }
        for (k, (s, n)) in &self.prev_extents {
            if now_extents.get(k) != Some(&(*s, *n)) {
                if *n > 1 {
                    self.stats.hit("released_multi_block_extent");
                }
                for b in *s..*s + *n {
                    self.freed_blocks.insert(b);
                }
            }
        }
        let mut reused = false;
        for (k, (s, n)) in &now_extents {
            if self.prev_extents.get(k) != Some(&(*s, *n)) && (*s..*s + *n).any(|b| self.freed_blocks.contains(&b)) {
                reused = true;
            }
        }
        if reused {
            self.stats.hit("reused_freed_blocks");
        }
        for (_, (s, n)) in &now_extents {
            for b in *s..*s + *n {
                self.freed_blocks.remove(&b);
            }
        }
        self.prev_extents = now_extents;
        self.stats.hit("partition_checked");
        Ok(())
    }

    /// C10: independent decode of the file after flush.
    fn check_layout(&mut self, step: usize) -> Result<(), Failure> {
        let Some(path) = self.path.clone() else { return Ok(()) };
        let img = std::fs::read(&path).map_err(|e| self.fail("layout", "io", step, format!("read device: {e}")))?;
        let dec = match layout::decode_image(&img) {
            Ok(d) => d,
            Err(e) => return Err(self.fail("layout", "undecodable", step, format!("independent reader cannot decode the file after flush: {e}"))),
        };
        if dec.meta.version != self.cfg.version {
            return Err(self.fail("layout", "version-changed", step, format!("metadata version is {} on a v{} device", dec.meta.version, self.cfg.version)));
        }
        if let Some(p) = dec.problems.first() {
            return Err(self.fail("layout", "layout-problem", step, format!("independent reader: {p} ({} problems)", dec.problems.len())));
        }
        // a reader that honours a marker's block count skips [s, s + remaining): no live record may
        // lie inside that span, wherever in a retired extent the reader meets the marker
        {
            let mut extents: Vec<(u64, u64)> = dec.live.values().map(|r| (r.sector, r.blocks)).collect();
            extents.sort();
            for (s, c) in &dec.classes {
                if let layout::BlockClass::Marker { remaining, ok: true } = c {
                    let end = s + remaining;
                    let i = extents.partition_point(|(a, n)| a + n <= *s);
                    if let Some((a, n)) = extents.get(i) {
                        if *a < end {
                            return Err(self.fail("layout", "marker-spans-live-record", step, format!("retirement marker at block {s} announces {remaining} retired blocks (up to block {end}) but the live record at {a}+{n} lies inside that span: a reader skipping the announced extent loses it")));
                        }
                    }
                    if *remaining > 256 {
                        self.stats.hit("layout_marker_chain_over_256_blocks");
                    }
                }
            }
        }
        if dec.all_records.len() != dec.live.len() {
            return Err(self.fail("layout", "superseded-generation-on-disk", step, format!("{} records on disk for {} keys after flush: superseded generations were not retired", dec.all_records.len(), dec.live.len())));
        }
        let mk: Vec<&Vec<u8>> = self.model.map.keys().collect();
        let dk: Vec<&Vec<u8>> = dec.live.keys().collect();
        if mk != dk {
            return Err(self.fail("layout", "file-key-set", step, format!("file holds keys {:?} but the model has {:?}", dk.iter().map(|k| model::short(k)).collect::<Vec<_>>(), mk.iter().map(|k| model::short(k)).collect::<Vec<_>>())));
        }
        for (k, r) in &dec.live {
            let g = &self.model.map[k];
            let exp = if self.cfg.version == 1 { 0 } else { g.expiry };
            let same_val = r.value == *g.value || (g.json_derived && model::json_equal(&r.value, &g.value));
            if !same_val || r.ts != g.ts || r.expiry != exp {
                return Err(self.fail("layout", "file-generation", step, format!("file record for {} = (len {}, ts {}, expiry {}) but the model has (len {}, ts {}, expiry {})", model::short(k), r.value.len(), r.ts, r.expiry, g.value.len(), g.ts, exp)));
            }
        }
        match layout::journal_winner(&dec.slots) {
            Some((_, _, extents)) if !extents.is_empty() => {
                return Err(self.fail("layout", "journal-active-after-flush", step, format!("newest allocation-journal slot is ACTIVE after flush: {extents:?}")));
            }
            Some(_) => {}
            None => {
                if dec.slots.iter().any(|s| *s == layout::Slot::Invalid) {
                    return Err(self.fail("layout", "journal-invalid", step, "no valid allocation-journal slot after flush".into()));
                }
            }
        }
        let live_bytes: u64 = dec.live.values().map(|r| r.blocks * 4096).sum();
        if dec.meta.records != dec.live.len() as u64 || dec.meta.size != live_bytes {
            return Err(self.fail("layout", "metadata-counters", step, format!("newest metadata copy says records={} size={} but the file holds {} records in {} bytes", dec.meta.records, dec.meta.size, dec.live.len(), live_bytes)));
        }
        if self.cfg.version < 3 && dec.all_records.iter().any(|_| false) {
            unreachable!();
        }
        let markers = dec.classes.iter().filter(|(_, c)| matches!(c, layout::BlockClass::Marker { .. })).count();
        if markers > 0 {
            self.stats.hit("layout_with_markers");
        }
        if dec.live.values().any(|r| r.blocks > 1) {
            self.stats.hit("layout_with_multiblock");
        }
        if dec.meta.generation >= 2 {
            self.stats.hit("layout_meta_gen2");
        }
        if markers > 0 && dec.live.values().any(|r| r.blocks > 1) && dec.meta.generation >= 2 {
            self.stats.hit("layout_nontrivial");
        }
        self.stats.hit("layout_checked");
        Ok(())
    }

    fn do_flush(&mut self, step: usize) -> Result<(), Failure> {
        let faults_before = self.fault_dev.as_ref().map(|d| d.lock().unwrap().faults_injected);
        let r = {
            let _g = env::watch("flush");
            if self.co_flush == 0 {
                self.store().flush()
            } else {
                // several application threads acknowledge the same state: each Ok is an
                // acknowledgement of its own, reported the moment it is returned
                let n = self.co_flush;
                let store = self.store.as_ref().expect("store");
                let ack = self.co_flush_ack.clone();
                let barrier = std::sync::Barrier::new(n + 1);
                let r = std::thread::scope(|s| {
                    for _ in 0..n {
                        s.spawn(|| {
                            barrier.wait();
                            if store.flush().is_ok() {
                                if let Some(a) = &ack {
                                    a(step)
                                }
                            }
                        });
                    }
                    barrier.wait();
                    let r = store.flush();
                    if r.is_ok() {
                        if let Some(a) = &ack {
                            a(step)
                        }
                    }
                    r
                });
                self.stats.hit("flush_with_concurrent_flushers");
                r
            }
        };
        match r {
            Ok(()) => {
                self.transcript.push(Res::Unit);
                self.stats.hit("flush_ok");
                self.blocks_since_flush = 0;
                if self.cfg.persistent {
                    if self.flags.partition {
                        self.check_partition(step)?;
                    }
                    if self.flags.layout {
                        self.check_layout(step)?;
                    }
                }
                Ok(())
            }
            Err(e) => {
                let kind = classify(&e);
                self.transcript.push(Res::Err(kind.clone()));
                let live_blocks: u64 = self.model.map.iter().map(|(k, g)| layout::record_blocks(self.cfg.version, k.len(), g.value.len()) as u64).sum();
                let data_blocks = self.cfg.dev.blocks() - 16;
                // OutOfSpace is justified exactly when the unflushed live records cannot all be
                // placed into the free runs left once everything releasable has been released
                let snap = self.store().verif_snapshot();
                if std::env::var("FXV_DEBUG_FLUSH").is_ok() {
                    eprintln!("flush error {e:?}: free runs {:?}; records {:?}; pending per shard {:?}; retirements pending {}", snap.free_runs, snap.records.iter().map(|r| (model::short(&r.key), r.sector, layout::record_blocks(snap.format_version, r.key.len(), r.value_len), r.timestamp)).collect::<Vec<_>>(), snap.shard_pending, snap.retirements_pending);
                }
                let (unfit, single_unfit) = pending_cannot_fit(&snap);
                if unfit && !single_unfit {
                    self.stats.hit("flush_out_of_space_batch_does_not_fit_together");
                }
                // an Io error needs a fault consumed during this flush; an indeterminate error may
                // stem from any earlier fault (a background flush may have poisoned the device)
                let faulted = match (&self.fault_dev, faults_before) {
                    (Some(d), Some(before)) => {
                        // once a fault was consumed the device may be poisoned until restart and
                        // failed allocations stay quarantined: later flushes may keep failing
                        // (Indeterminate, or OutOfSpace before any I/O is attempted)
                        let now = d.lock().unwrap().faults_injected;
                        now > before || self.poisoned || (matches!(kind, ErrKind::Indeterminate | ErrKind::OutOfSpace) && now > 0)
                    }
                    _ => false,
                };
                if kind == ErrKind::OutOfSpace && self.cfg.persistent && unfit {
                    self.stats.hit("flush_out_of_space");
                    Ok(())
                } else if faulted && matches!(kind, ErrKind::Io | ErrKind::Indeterminate | ErrKind::OutOfSpace | ErrKind::Other(_)) {
                    // an injected device fault surfaced (or the device is poisoned until restart)
                    if kind == ErrKind::Indeterminate {
                        self.poisoned = true;
                    }
                    self.stats.hit("flush_failed_under_fault");
                    Ok(())
                } else if self.flags.results {
                    Err(self.fail("results", "flush-error", step, format!("flush() failed with {e:?} on a healthy device ({live_blocks} live blocks + {} written since last flush, {data_blocks} data blocks)", self.blocks_since_flush)))
                } else {
                    Err(self.fail("foreign", "foreign", step, format!("flush -> {e:?}")))
                }
            }
        }
    }

    fn do_reopen(&mut self, step: usize, cache: Option<bool>, ttl: Option<bool>) -> Result<(), Failure> {
        if !self.cfg.persistent {
            self.stats.hit("reopen_skipped_memory_only");
            return Ok(());
        }
        // The final flush of a clean close can only be relied upon if everything pending surely
        // fits: all unflushed records together into the largest free run.
        let snap = self.store().verif_snapshot();
        let largest_free = snap.free_runs.iter().map(|(_, n)| *n).max().unwrap_or(0);
        let pending_blocks: u64 = snap
            .records
            .iter()
            .filter(|r| r.sector == 0)
            .map(|r| layout::record_blocks(snap.format_version, r.key.len(), r.value_len) as u64)
            .sum();
        if pending_blocks > largest_free {
            // the final flush of a clean close could run out of space; flush explicitly to find out
            let r = self.store().flush();
            if r.is_err() {
                self.stats.hit("reopen_skipped_device_full");
                return Ok(());
            }
            self.blocks_since_flush = 0;
        }
        {
            let store = self.store.take().unwrap();
            let _g = env::watch("drop for reopen");
            if let Some(m) = &self.marks {
                crate::trace::mark(m, crate::trace::Mark::DropBegin);
            }
            drop(store);
            if let Some(m) = &self.marks {
                crate::trace::mark(m, crate::trace::Mark::DropEnd);
                crate::trace::mark(m, crate::trace::Mark::OpenBegin);
            }
        }
        if let Some(c) = cache {
            self.cfg.cache = c;
        }
        if let Some(t) = ttl {
            if !(self.cfg.version == 1 && t) || true {
                self.cfg.ttl = t;
            }
        }
        let store = match open_store(&self.cfg, self.path.as_deref()) {
            Ok(s) => s,
            Err(e) => {
                return Err(self.fail(if self.flags.results { "results" } else { "foreign" }, "reopen-failed", step, format!("clean reopen failed: {e:?}")));
            }
        };
        self.store = Some(store);
        if let Some(m) = &self.marks {
            crate::trace::mark(m, crate::trace::Mark::OpenEnd);
        }
        let before = self.model.map.len();
        self.model.reopen(self.cfg.ttl);
        if self.model.map.len() != before {
            self.stats.hit("reopen_dropped_expired");
        }
        self.blocks_since_flush = 0;
        self.just_reopened = true;
        // explicit timestamps of keys that no longer exist are forgotten by a restart
        let alive: std::collections::HashSet<Vec<u8>> = self.model.map.keys().cloned().collect();
        self.max_explicit.retain(|k, _| alive.contains(k));
        self.stats.hit("reopen");
        self.transcript.push(Res::Unit);
        Ok(())
    }

    pub fn run(&mut self) -> Option<Failure> {
        let ops = self.case.ops.clone();
        for (step, op) in ops.iter().enumerate() {
            if let Some(f) = self.step(step, op) {
                return Some(f);
            }
        }
        if self.flags.readback {
            if let Err(f) = self.readback_all(ops.len(), "the last step") {
                return Some(f);
            }
        }
        None
    }

    /// Execute one generated op (resolve, call, judge). Returns the failure, if any.
    pub fn step(&mut self, step: usize, op: &Op) -> Option<Failure> {
        let policy = self.readback_policy.unwrap_or(self.case.t0_offset % 3); // 0: everything every step, 1: touched key, 2: end only
        {
            feoxdb::verif::set_thread_clock(Some(self.model.now));
            *self.stats.ops.entry(op.name()).or_insert(0) += 1;
            self.stats.steps = step + 1;
            let mut touched: Option<Vec<u8>> = None;
            let r = match op {
                Op::Flush => self.do_flush(step),
                Op::Reopen { cache, ttl } => self.do_reopen(step, *cache, *ttl),
                Op::Advance(a) => {
                    let target = match a {
                        Advance::Ns(d) => self.model.now.saturating_add(*d),
                        Advance::ToExpiry(k, d) => {
                            let key = self.resolve_key(*k);
                            match self.model.map.get(&key) {
                                Some(g) if g.expiry > 0 => add_signed(g.expiry, *d),
                                _ => self.model.now,
                            }
                        }
                    };
                    if target > self.model.now && target < u64::MAX / 2 {
                        self.model.now = target;
                        feoxdb::verif::set_thread_clock(Some(target));
                        self.stats.hit("clock_advanced");
                    }
                    Ok(())
                }
                Op::Sleep => {
                    if self.cfg.persistent {
                        std::thread::sleep(std::time::Duration::from_millis(130));
                        self.stats.hit("slept");
                    }
                    Ok(())
                }
                other => {
                    let call = self.resolve(other).unwrap();
                    touched = call.key().map(|k| k.to_vec());
                    self.last_touched = touched.clone();
                    // near-expiry classification
                    if let Some(g) = touched.as_ref().and_then(|k| self.model.map.get(k)) {
                        if g.expiry > 0 && self.model.ttl {
                            let d = self.model.now as i128 - g.expiry as i128;
                            if d.abs() <= 1 {
                                self.stats.hit("call_within_1ns_of_expiry");
                            }
                            if d > 0 {
                                self.stats.hit("call_on_expired_present");
                            }
                        }
                    }
                    self.step_call(step, &call)
                }
            };
            if let Err(f) = r {
                return Some(f);
            }
            if let Err(f) = self.check_snapshot(step, &format!("step {step} ({})", op.name())) {
                return Some(f);
            }
            if self.flags.readback {
                let what = format!("step {step} ({})", op.name());
                let res = match policy {
                    0 => self.readback_all(step, &what),
                    1 => match &touched {
                        Some(k) => {
                            let was_err = matches!(self.transcript.last(), Some(Res::Err(_)));
                            let r = self.readback_key(step, &k.clone(), &what);
                            if was_err && r.is_ok() {
                                self.stats.hit("error_then_readback");
                            }
                            r
                        }
                        None => Ok(()),
                    },
                    _ => Ok(()),
                };
                if policy == 0 && matches!(self.transcript.last(), Some(Res::Err(_))) && res.is_ok() {
                    self.stats.hit("error_then_readback");
                }
                if let Err(f) = res {
                    return Some(f);
                }
            }
            if !matches!(op, Op::Reopen { .. }) && touched.is_some() {
                self.just_reopened = false;
            }
            if self.stats.has("auto_after_failed_explicit") {
                self.failed_explicit_pending = false;
            }
        }
        None
    }

    pub fn finish(mut self) -> (CaseStats, Vec<Res>) {
        feoxdb::verif::set_thread_clock(None);
        if let Some(store) = self.store.take() {
            let remove = if self.keep_file { None } else { self.path.clone() };
            env::reap(store, remove);
        }
        (self.stats, self.transcript)
    }
}

fn add_signed(base: u64, d: i64) -> u64 {
    if d >= 0 {
        base.saturating_add(d as u64)
    } else {
        base.saturating_sub(d.unsigned_abs())
    }
}

fn explicit_ts_of(call: &Call) -> Option<u64> {
    let ts = match call {
        Call::Insert { ts, .. } | Call::InsertTtl { ts, .. } | Call::Delete { ts, .. } | Call::Cas { ts, .. } | Call::Incr { ts, .. } | Call::JsonPatch { ts, .. } => *ts,
        _ => None,
    };
    ts.filter(|t| *t != 0)
}

fn is_ttl_call(call: &Call) -> bool {
    match call {
        Call::InsertTtl { .. } | Call::UpdateTtl { .. } | Call::Persist { .. } | Call::GetTtl { .. } => true,
        Call::Cas { ttl, .. } | Call::Incr { ttl, .. } => ttl.is_some(),
        _ => false,
    }
}

fn is_auto_call(call: &Call) -> bool {
    match call {
        Call::Insert { ts, .. } | Call::InsertTtl { ts, .. } | Call::Delete { ts, .. } | Call::Cas { ts, .. } | Call::Incr { ts, .. } | Call::JsonPatch { ts, .. } => matches!(ts, None | Some(0)),
        Call::InsertIfAbsent { .. } | Call::UpdateTtl { .. } | Call::Persist { .. } => true,
        _ => false,
    }
}

pub fn run_case(case: &Case, flags: &Flags) -> RunOutput {
    match Runner::new(case, flags) {
        Ok(mut r) => {
            let failure = r.run();
            let (stats, transcript) = r.finish();
            RunOutput { stats, transcript, failure }
        }
        Err(msg) => {
            feoxdb::verif::set_thread_clock(None);
            RunOutput {
                stats: CaseStats::default(),
                transcript: Vec::new(),
                failure: Some(Failure { oracle: "results", signature: "open-failed".into(), step: 0, msg, tags: Vec::new() }),
            }
        }
    }
}

/// Can the records that are still unflushed be placed? Returns (some placement of all of them
/// fails, a single one exceeds the largest free run). A shard's batch is allocated as a whole and
/// rolled back as a whole, and the extents of the generations the pending records replace only
/// become free after their successors are durable - so OutOfSpace is justified whenever the pending
/// records cannot all be placed together (best fit, tried in queue, ascending and descending order).
pub fn pending_cannot_fit(snap: &feoxdb::core::store::verif::VerifSnapshot) -> (bool, bool) {
    let largest_free = snap.free_runs.iter().map(|(_, n)| *n).max().unwrap_or(0);
    let pending: Vec<u64> = snap.records.iter().filter(|r| r.sector == 0).map(|r| layout::record_blocks(snap.format_version, r.key.len(), r.value_len) as u64).collect();
    let place_all = |order: &[u64]| -> bool {
        let mut runs: Vec<u64> = snap.free_runs.iter().map(|(_, n)| *n).collect();
        for need in order {
            match runs.iter_mut().filter(|n| **n >= *need).min_by_key(|n| **n) {
                Some(run) => *run -= *need,
                None => return false,
            }
        }
        true
    };
    let mut asc = pending.clone();
    asc.sort();
    let mut desc = asc.clone();
    desc.reverse();
    let single = pending.iter().any(|b| *b > largest_free);
    (single || !place_all(&pending) || !place_all(&asc) || !place_all(&desc), single)
}

pub fn _unused(_: &Gen) {}

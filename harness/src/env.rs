//! Process-level services: scratch directory, reaper for store drops, watchdog, tiers, evidence.

use std::collections::BTreeMap;
use std::path::PathBuf;
use std::sync::atomic::{AtomicBool, AtomicU64, AtomicUsize, Ordering};
use std::sync::{Arc, Mutex, OnceLock};
use std::time::{Duration, Instant};

use serde_json::{json, Value};

#[derive(Clone, Copy, Debug, PartialEq, Eq)]
pub enum Tier {
    Quick,
    Thorough,
}

impl Tier {
    pub fn name(&self) -> &'static str {
        match self {
            Tier::Quick => "quick",
            Tier::Thorough => "thorough",
        }
    }
    pub fn pick<T>(&self, quick: T, thorough: T) -> T {
        match self {
            Tier::Quick => quick,
            Tier::Thorough => thorough,
        }
    }
}

pub fn verif_root() -> PathBuf {
    std::env::var("FXV_ROOT").map(PathBuf::from).unwrap_or_else(|_| PathBuf::from("/verif"))
}

pub fn scratch_dir() -> PathBuf {
    static DIR: OnceLock<PathBuf> = OnceLock::new();
    DIR.get_or_init(|| {
        let base = if std::path::Path::new("/dev/shm").is_dir() { "/dev/shm" } else { "/tmp" };
        let d = PathBuf::from(format!("{base}/fxv-{}", std::process::id()));
        let _ = std::fs::remove_dir_all(&d);
        std::fs::create_dir_all(&d).expect("scratch dir");
        d
    })
    .clone()
}

pub fn cleanup_scratch() {
    let _ = std::fs::remove_dir_all(scratch_dir());
}

static FILE_SEQ: AtomicU64 = AtomicU64::new(0);

pub fn fresh_path(tag: &str) -> String {
    let n = FILE_SEQ.fetch_add(1, Ordering::Relaxed);
    scratch_dir().join(format!("{tag}-{n}.feox")).to_string_lossy().into_owned()
}

// ------------------------------------------------------------------------------------------
// reaper: drops stores on detached threads (a drop takes ~500 ms), then removes the file
// ------------------------------------------------------------------------------------------

static REAPING: AtomicUsize = AtomicUsize::new(0);
const MAX_REAPING: usize = 320;

pub fn reap<T: Send + 'static>(store: T, remove: Option<String>) {
    while REAPING.load(Ordering::Acquire) >= MAX_REAPING {
        std::thread::sleep(Duration::from_millis(5));
    }
    REAPING.fetch_add(1, Ordering::AcqRel);
    std::thread::spawn(move || {
        let guard = watch("reaper drop");
        drop(store);
        drop(guard);
        if let Some(path) = remove {
            let _ = std::fs::remove_file(path);
        }
        REAPING.fetch_sub(1, Ordering::AcqRel);
    });
}

pub fn wait_reaper() {
    let start = Instant::now();
    while REAPING.load(Ordering::Acquire) > 0 {
        std::thread::sleep(Duration::from_millis(10));
        if start.elapsed() > Duration::from_secs(120) {
            break;
        }
    }
}

// ------------------------------------------------------------------------------------------
// watchdog: every store call runs under a guard; a guard older than the limit ends the process
// with exit code 2 (inconclusive), never a violation, unless a hang handler is installed.
// ------------------------------------------------------------------------------------------

struct Watched {
    what: String,
    since: Instant,
}

static WATCH: OnceLock<Mutex<BTreeMap<u64, Watched>>> = OnceLock::new();
static WATCH_SEQ: AtomicU64 = AtomicU64::new(0);
static WATCH_LIMIT_MS: AtomicU64 = AtomicU64::new(60_000);
static WATCH_STARTED: AtomicBool = AtomicBool::new(false);
pub static HANG_FLAG: AtomicBool = AtomicBool::new(false);
static HANG_EXIT: AtomicBool = AtomicBool::new(true);
static HANG_WHAT: OnceLock<Mutex<Option<String>>> = OnceLock::new();

pub struct WatchGuard(u64);

impl Drop for WatchGuard {
    fn drop(&mut self) {
        if let Some(m) = WATCH.get() {
            m.lock().unwrap().remove(&self.0);
        }
    }
}

pub fn set_watch_limit(ms: u64) {
    WATCH_LIMIT_MS.store(ms, Ordering::Relaxed);
}

/// When false, a stuck call sets HANG_FLAG (and records what hung) instead of exiting.
pub fn set_hang_exits(exits: bool) {
    HANG_EXIT.store(exits, Ordering::Relaxed);
}

pub fn take_hang() -> Option<String> {
    HANG_WHAT.get().and_then(|m| m.lock().unwrap().take())
}

pub fn watch(what: &str) -> WatchGuard {
    let map = WATCH.get_or_init(|| Mutex::new(BTreeMap::new()));
    if !WATCH_STARTED.swap(true, Ordering::AcqRel) {
        std::thread::spawn(|| loop {
            std::thread::sleep(Duration::from_millis(250));
            let limit = Duration::from_millis(WATCH_LIMIT_MS.load(Ordering::Relaxed));
            let stuck = {
                let m = WATCH.get().unwrap().lock().unwrap();
                m.values().find(|w| w.since.elapsed() > limit).map(|w| (w.what.clone(), w.since.elapsed()))
            };
            if let Some((what, age)) = stuck {
                if HANG_EXIT.load(Ordering::Relaxed) {
                    eprintln!("fxv: watchdog: `{what}` has not finished after {age:?}; inconclusive");
                    println!("INCONCLUSIVE watchdog what={what:?} threads={}", thread_states());
                    cleanup_scratch();
                    std::process::exit(2);
                } else if !HANG_FLAG.swap(true, Ordering::AcqRel) {
                    *HANG_WHAT.get_or_init(|| Mutex::new(None)).lock().unwrap() = Some(what);
                }
            }
        });
    }
    let id = WATCH_SEQ.fetch_add(1, Ordering::Relaxed);
    map.lock().unwrap().insert(id, Watched { what: what.to_string(), since: Instant::now() });
    WatchGuard(id)
}

// ------------------------------------------------------------------------------------------
// evidence
// ------------------------------------------------------------------------------------------

pub struct Evidence {
    pub property: String,
    pub tier: Tier,
    pub seed: u64,
    pub level: &'static str,
    pub started: Instant,
    pub evaluations: u64,
    pub nontrivial: std::collections::HashSet<u64>,
    pub rule: String,
    pub samples: Vec<Value>,
    pub extra: serde_json::Map<String, Value>,
    pub assumptions: Vec<String>,
    pub violations: u64,
}

impl Evidence {
    pub fn new(property: &str, tier: Tier, seed: u64, level: &'static str, rule: &str) -> Self {
        Evidence {
            property: property.to_string(),
            tier,
            seed,
            level,
            started: Instant::now(),
            evaluations: 0,
            nontrivial: Default::default(),
            rule: rule.to_string(),
            samples: Vec::new(),
            extra: Default::default(),
            assumptions: Vec::new(),
            violations: 0,
        }
    }
    pub fn sample(&mut self, v: Value) {
        if self.samples.len() < 5 {
            self.samples.push(v);
        }
    }
    pub fn set(&mut self, key: &str, v: Value) {
        self.extra.insert(key.to_string(), v);
    }
    pub fn write(&self) {
        let mut coverage = serde_json::Map::new();
        coverage.insert("evaluations".into(), json!(self.evaluations));
        coverage.insert("distinct_nontrivial".into(), json!(self.nontrivial.len()));
        coverage.insert("rule".into(), json!(self.rule));
        coverage.insert("samples".into(), Value::Array(self.samples.clone()));
        for (k, v) in &self.extra {
            coverage.insert(k.clone(), v.clone());
        }
        let doc = json!({
            "property_id": self.property,
            "tier": self.tier.name(),
            "seed": self.seed,
            "level": self.level,
            "coverage": Value::Object(coverage),
            "assumptions": self.assumptions,
            "wall_s": (self.started.elapsed().as_millis() as f64) / 1000.0,
            "violations": self.violations,
        });
        let dir = verif_root().join("evidence");
        let _ = std::fs::create_dir_all(&dir);
        let path = dir.join(format!("{}.json", self.property));
        std::fs::write(&path, serde_json::to_vec_pretty(&doc).unwrap()).expect("write evidence");
    }
}

pub fn fingerprint<T: std::hash::Hash>(t: &T) -> u64 {
    use std::hash::Hasher;
    let mut h = std::collections::hash_map::DefaultHasher::new();
    t.hash(&mut h);
    h.finish()
}

/// FNV-1a over bytes: stable across processes (DefaultHasher is too, but this is explicit).
pub fn fnv(data: &[u8]) -> u64 {
    let mut h = 0xcbf29ce484222325u64;
    for b in data {
        h ^= *b as u64;
        h = h.wrapping_mul(0x100000001b3);
    }
    h
}

// ------------------------------------------------------------------------------------------
// violations, replay files, known findings
// ------------------------------------------------------------------------------------------

pub fn save_replay(property: &str, doc: &Value) -> String {
    let bytes = serde_json::to_vec_pretty(doc).unwrap();
    let dir = verif_root().join("replays").join(property);
    let _ = std::fs::create_dir_all(&dir);
    let path = dir.join(format!("{:016x}.json", fnv(&bytes)));
    std::fs::write(&path, bytes).expect("write replay");
    path.to_string_lossy().into_owned()
}

#[derive(Clone, Debug)]
pub struct KnownFinding {
    pub property: String,
    pub signature: String,
    pub what: String,
}

pub fn known_findings() -> Vec<KnownFinding> {
    let path = verif_root().join("known_findings.jsonl");
    let Ok(text) = std::fs::read_to_string(path) else { return Vec::new() };
    text.lines()
        .filter(|l| !l.trim().is_empty() && !l.trim_start().starts_with('#'))
        .filter_map(|l| serde_json::from_str::<Value>(l).ok())
        .filter(|v| v.get("status").and_then(|s| s.as_str()) == Some("known"))
        .map(|v| KnownFinding {
            property: v["property"].as_str().unwrap_or("").to_string(),
            signature: v["signature"].as_str().unwrap_or("").to_string(),
            what: v["what"].as_str().unwrap_or("").to_string(),
        })
        .collect()
}

pub fn is_known(property: &str, signature: &str) -> bool {
    static CACHE: OnceLock<Vec<KnownFinding>> = OnceLock::new();
    CACHE.get_or_init(known_findings).iter().any(|k| k.property == property && k.signature == signature)
}

pub fn known_what(property: &str, signature: &str) -> Option<String> {
    known_findings().into_iter().find(|k| k.property == property && k.signature == signature).map(|k| k.what)
}

/// Report a violation. Returns true if it is a listed known finding (then it does not fail the check).
pub fn report_violation(property: &str, signature: &str, replay: &Value) -> bool {
    for k in known_findings() {
        if k.property == property && k.signature == signature {
            println!("KNOWN-FINDING: property={property} {}", k.what);
            return true;
        }
    }
    let path = save_replay(property, replay);
    println!("VIOLATION property={property} replay={path}");
    false
}

pub fn seed_from_env() -> u64 {
    std::env::var("VERIF_SEED").ok().and_then(|s| s.parse::<u64>().ok()).unwrap_or(1)
}

pub fn proptest_seed(seed: u64, lane: u64) -> [u8; 32] {
    let mut out = [0u8; 32];
    let mut x = seed.wrapping_mul(0x9E3779B97F4A7C15) ^ lane.wrapping_mul(0xD1B54A32D192ED03) ^ 0x5851F42D4C957F2D;
    for chunk in out.chunks_mut(8) {
        x ^= x >> 30;
        x = x.wrapping_mul(0xBF58476D1CE4E5B9);
        x ^= x >> 27;
        x = x.wrapping_mul(0x94D049BB133111EB);
        x ^= x >> 31;
        chunk.copy_from_slice(&x.to_le_bytes());
    }
    out
}

pub fn threads() -> usize {
    std::env::var("FXV_THREADS")
        .ok()
        .and_then(|s| s.parse().ok())
        .unwrap_or_else(|| std::thread::available_parallelism().map(|n| n.get()).unwrap_or(8).min(16))
}

pub type Shared<T> = Arc<Mutex<T>>;

// ------------------------------------------------------------------------------------------
// CPU visibility: feoxdb sizes its shard/worker pool from num_cpus::get(), which follows the
// calling thread's affinity mask. Spawned threads inherit the mask.
// ------------------------------------------------------------------------------------------

static CPU_ROTOR: AtomicUsize = AtomicUsize::new(0);

fn all_cpus() -> usize {
    static N: OnceLock<usize> = OnceLock::new();
    *N.get_or_init(|| unsafe { libc::sysconf(libc::_SC_NPROCESSORS_CONF) as usize }.max(1))
}

/// Run `f` with exactly `visible` CPUs visible to the calling thread (so a store opened inside
/// gets max(1, visible/2) workers), then restore full visibility.
pub fn with_visible_cpus<T>(visible: usize, f: impl FnOnce() -> T) -> T {
    let total = all_cpus();
    if visible == 0 || visible >= total {
        return f();
    }
    unsafe {
        let mut old: libc::cpu_set_t = std::mem::zeroed();
        libc::sched_getaffinity(0, std::mem::size_of::<libc::cpu_set_t>(), &mut old);
        let mut set: libc::cpu_set_t = std::mem::zeroed();
        let start = CPU_ROTOR.fetch_add(visible, Ordering::Relaxed);
        for i in 0..visible {
            libc::CPU_SET((start + i) % total, &mut set);
        }
        libc::sched_setaffinity(0, std::mem::size_of::<libc::cpu_set_t>(), &set);
        let r = f();
        libc::sched_setaffinity(0, std::mem::size_of::<libc::cpu_set_t>(), &old);
        r
    }
}

/// One letter per thread of this process (R running, S sleeping, D disk wait ...), from /proc.
pub fn thread_states() -> String {
    let mut out = String::new();
    if let Ok(dir) = std::fs::read_dir("/proc/self/task") {
        for e in dir.flatten() {
            if let Ok(stat) = std::fs::read_to_string(e.path().join("stat")) {
                if let Some(rest) = stat.rsplit(')').next() {
                    out.push(rest.trim().chars().next().unwrap_or('?'));
                }
            }
        }
    }
    out
}

//! Independent codec for the feoxdb device layout (v1/v2/v3). Shares no code with the crate:
//! own CRC32C, own token fold, own metadata / journal / record / marker decoding and encoding.
//! Written from the released layout (DESIGN.md Appendix B).

use std::collections::BTreeMap;

pub const B: usize = 4096;
pub const DATA_START: u64 = 16;
pub const META_PRIMARY: u64 = 0;
pub const META_BACKUP: u64 = 7;
pub const JOURNAL_START: u64 = 1;
pub const JOURNAL_SLOT_BLOCKS: u64 = 3;
pub const RECORD_MARKER: [u8; 2] = [0xCD, 0xAB];
pub const DELETED_TAG: &[u8; 8] = b"\0DELETED";
pub const JOURNAL_MAGIC: &[u8; 8] = b"\0FEOXAJ1";
pub const SIGNATURE: &[u8; 8] = b"FEOX_SIG";

fn table() -> &'static [u32; 256] {
    static T: std::sync::OnceLock<[u32; 256]> = std::sync::OnceLock::new();
    T.get_or_init(|| {
        let mut t = [0u32; 256];
        for (i, slot) in t.iter_mut().enumerate() {
            let mut c = i as u32;
            for _ in 0..8 {
                c = if c & 1 != 0 { (c >> 1) ^ 0x82F6_3B78 } else { c >> 1 };
            }
            *slot = c;
        }
        t
    })
}

pub fn crc(seed: u32, data: &[u8]) -> u32 {
    let t = table();
    let mut c = seed ^ 0xFFFF_FFFF;
    for &b in data {
        c = t[((c ^ b as u32) & 0xFF) as usize] ^ (c >> 8);
    }
    c ^ 0xFFFF_FFFF
}

pub fn fold16(x: u32) -> u16 {
    let t = ((x >> 16) ^ (x & 0xFFFF)) as u16;
    if t == 0 {
        1
    } else {
        t
    }
}

pub fn header_len(version: u32) -> usize {
    if version >= 2 {
        24
    } else {
        16
    }
}

/// total bytes of a record before padding
pub fn record_size(version: u32, klen: usize, vlen: usize) -> usize {
    4 + 2 + klen + header_len(version) + vlen
}

pub fn record_blocks(version: u32, klen: usize, vlen: usize) -> usize {
    record_size(version, klen, vlen).div_ceil(B)
}

pub fn max_key_len(version: u32) -> usize {
    B - (4 + 2 + header_len(version))
}

// ------------------------------------------------------------------------------------------
// metadata
// ------------------------------------------------------------------------------------------

#[derive(Clone, Debug, PartialEq, Eq)]
pub struct Meta {
    pub version: u32,
    pub records: u64,
    pub size: u64,
    pub device_size: u64,
    pub fragmentation: u32,
    pub creation: u64,
    pub update: u64,
    pub generation: u64,
    pub has_checksum: bool,
}

fn meta_crc(blk: &[u8]) -> u32 {
    let res = &blk[64..132];
    let mut x = crc(0, &blk[0..8]);
    x = crc(x, &blk[8..12]);
    x = crc(x, &blk[16..24]);
    x = crc(x, &blk[24..32]);
    x = crc(x, &blk[32..40]);
    x = crc(x, &blk[40..44]);
    x = crc(x, &blk[44..48]);
    x = crc(x, &blk[48..56]);
    x = crc(x, &blk[56..64]);
    crc(x, &res[12..])
}

pub fn decode_meta(blk: &[u8]) -> Option<Meta> {
    if blk.len() < 136 || &blk[0..8] != SIGNATURE {
        return None;
    }
    let u32at = |o: usize| u32::from_le_bytes(blk[o..o + 4].try_into().unwrap());
    let u64at = |o: usize| u64::from_le_bytes(blk[o..o + 8].try_into().unwrap());
    let version = u32at(8);
    let block_size = u32at(40);
    let device_size = u64at(32);
    if block_size != 4096 || version == 0 || version > 3 || device_size == 0 || device_size > (1u64 << 40) {
        return None;
    }
    let res = &blk[64..132];
    let has = &res[0..4] == b"FM3C";
    if version >= 3 && !has {
        return None;
    }
    if has {
        let c = u32::from_le_bytes(res[4..8].try_into().unwrap());
        let nc = u32::from_le_bytes(res[8..12].try_into().unwrap());
        if nc != !c || meta_crc(blk) != c {
            return None;
        }
    }
    Some(Meta {
        version,
        records: u64at(16),
        size: u64at(24),
        device_size,
        fragmentation: u32at(44),
        creation: u64at(48),
        update: u64at(56),
        generation: u64::from_le_bytes(res[12..20].try_into().unwrap()),
        has_checksum: has,
    })
}

/// Encode a metadata block. `with_checksum=false` produces the released v1/v2 shape (reserved zero).
pub fn encode_meta(m: &Meta, with_checksum: bool) -> Vec<u8> {
    let mut blk = vec![0u8; B];
    blk[0..8].copy_from_slice(SIGNATURE);
    blk[8..12].copy_from_slice(&m.version.to_le_bytes());
    blk[16..24].copy_from_slice(&m.records.to_le_bytes());
    blk[24..32].copy_from_slice(&m.size.to_le_bytes());
    blk[32..40].copy_from_slice(&m.device_size.to_le_bytes());
    blk[40..44].copy_from_slice(&4096u32.to_le_bytes());
    blk[44..48].copy_from_slice(&m.fragmentation.to_le_bytes());
    blk[48..56].copy_from_slice(&m.creation.to_le_bytes());
    blk[56..64].copy_from_slice(&m.update.to_le_bytes());
    if with_checksum {
        blk[64..68].copy_from_slice(b"FM3C");
        blk[76..84].copy_from_slice(&m.generation.to_le_bytes());
        let c = meta_crc(&blk);
        blk[68..72].copy_from_slice(&c.to_le_bytes());
        blk[72..76].copy_from_slice(&(!c).to_le_bytes());
    }
    blk
}

// ------------------------------------------------------------------------------------------
// allocation journal
// ------------------------------------------------------------------------------------------

#[derive(Clone, Debug, PartialEq, Eq)]
pub enum Slot {
    Missing,
    Invalid,
    Valid { generation: u64, active: bool, extents: Vec<(u64, u64)>, version: u32 },
}

fn journal_crc(d: &[u8]) -> u32 {
    let mut x = crc(0, &d[0..12]);
    x = crc(x, &[0u8; 4]);
    x = crc(x, &d[16..32]);
    x = crc(x, &[0u8; 4]);
    crc(x, &d[36..])
}

pub fn decode_slot(d: &[u8], total_blocks: u64) -> Slot {
    if d.iter().all(|b| *b == 0) {
        return Slot::Missing;
    }
    if &d[0..8] != JOURNAL_MAGIC {
        return Slot::Invalid;
    }
    let ver = u32::from_le_bytes(d[8..12].try_into().unwrap());
    if ver != 1 && ver != 2 {
        return Slot::Invalid;
    }
    let c = u32::from_le_bytes(d[12..16].try_into().unwrap());
    let generation = u64::from_le_bytes(d[16..24].try_into().unwrap());
    let st = u32::from_le_bytes(d[24..28].try_into().unwrap());
    let cnt = u32::from_le_bytes(d[28..32].try_into().unwrap()) as usize;
    let nc = u32::from_le_bytes(d[32..36].try_into().unwrap());
    if generation == 0 || cnt > 1024 || st > 1 || (st == 0 && cnt != 0) || (st == 1 && cnt == 0) {
        return Slot::Invalid;
    }
    let n = if ver == 1 { d.len() } else { (40 + cnt * 8).div_ceil(B) * B };
    if n > d.len() || nc != !c || journal_crc(&d[..n]) != c {
        return Slot::Invalid;
    }
    let mut extents = Vec::new();
    for i in 0..cnt {
        let s = u32::from_le_bytes(d[40 + 8 * i..44 + 8 * i].try_into().unwrap()) as u64;
        let k = u32::from_le_bytes(d[44 + 8 * i..48 + 8 * i].try_into().unwrap()) as u64;
        if s < DATA_START || k == 0 || s + k > total_blocks {
            return Slot::Invalid;
        }
        extents.push((s, k));
    }
    let mut ordered = extents.clone();
    ordered.sort();
    for w in ordered.windows(2) {
        if w[0].0 + w[0].1 > w[1].0 {
            return Slot::Invalid;
        }
    }
    Slot::Valid { generation, active: st == 1, extents, version: ver }
}

pub fn encode_slot(generation: u64, extents: &[(u64, u64)], version: u32) -> Vec<u8> {
    let cnt = extents.len();
    let n = if version == 1 { 3 * B } else { (40 + cnt * 8).div_ceil(B) * B };
    let mut d = vec![0u8; n];
    d[0..8].copy_from_slice(JOURNAL_MAGIC);
    d[8..12].copy_from_slice(&version.to_le_bytes());
    d[16..24].copy_from_slice(&generation.to_le_bytes());
    d[24..28].copy_from_slice(&(if cnt > 0 { 1u32 } else { 0u32 }).to_le_bytes());
    d[28..32].copy_from_slice(&(cnt as u32).to_le_bytes());
    for (i, (s, k)) in extents.iter().enumerate() {
        d[40 + 8 * i..44 + 8 * i].copy_from_slice(&(*s as u32).to_le_bytes());
        d[44 + 8 * i..48 + 8 * i].copy_from_slice(&(*k as u32).to_le_bytes());
    }
    let c = journal_crc(&d);
    d[12..16].copy_from_slice(&c.to_le_bytes());
    d[32..36].copy_from_slice(&(!c).to_le_bytes());
    d
}

/// Which slot recovery would use: (slot index, generation, active extents)
pub fn journal_winner(slots: &[Slot; 2]) -> Option<(usize, u64, Vec<(u64, u64)>)> {
    let mut best: Option<(usize, u64, Vec<(u64, u64)>)> = None;
    for (i, s) in slots.iter().enumerate() {
        if let Slot::Valid { generation, active, extents, .. } = s {
            let cand = (i, *generation, if *active { extents.clone() } else { vec![] });
            // max_by_key keeps the last maximum; generations are distinct in practice
            if best.as_ref().is_none_or(|b| cand.1 >= b.1) {
                best = Some(cand);
            }
        }
    }
    best
}

// ------------------------------------------------------------------------------------------
// records and markers
// ------------------------------------------------------------------------------------------

pub fn record_token(sector: u64, ext: &[u8]) -> u16 {
    let mut x = crc(0, &sector.to_le_bytes());
    x = crc(x, &ext[0..2]);
    x = crc(x, &[0, 0]);
    x = crc(x, &ext[4..]);
    fold16(x)
}

pub fn marker_token(sector: u64, blk: &[u8]) -> u16 {
    let mut p = [0u8; 17];
    p[..16].copy_from_slice(&blk[..16]);
    p[16] = blk[18];
    fold16(crc(crc(0, &sector.to_le_bytes()), &p))
}

/// Encode a whole padded record extent. `sector` is needed for the v3 token.
pub fn encode_record(version: u32, sector: u64, key: &[u8], value: &[u8], ts: u64, expiry: u64) -> Vec<u8> {
    let blocks = record_blocks(version, key.len(), value.len());
    let mut d = Vec::with_capacity(blocks * B);
    d.extend_from_slice(&RECORD_MARKER);
    d.extend_from_slice(&[0, 0]);
    d.extend_from_slice(&(key.len() as u16).to_le_bytes());
    d.extend_from_slice(key);
    d.extend_from_slice(&(value.len() as u64).to_le_bytes());
    d.extend_from_slice(&ts.to_le_bytes());
    if version >= 2 {
        d.extend_from_slice(&expiry.to_le_bytes());
    }
    d.extend_from_slice(value);
    d.resize(blocks * B, 0);
    if version >= 3 {
        let t = record_token(sector, &d);
        d[2..4].copy_from_slice(&t.to_le_bytes());
    }
    d
}

pub fn encode_marker(sector: u64, remaining: u64, state: u8) -> Vec<u8> {
    let mut blk = vec![0u8; B];
    blk[..8].copy_from_slice(DELETED_TAG);
    blk[8..16].copy_from_slice(&remaining.to_le_bytes());
    blk[18] = state;
    let t = marker_token(sector, &blk);
    blk[16..18].copy_from_slice(&t.to_le_bytes());
    blk
}

pub fn encode_legacy_tombstone() -> Vec<u8> {
    let mut blk = vec![0u8; B];
    blk[..8].copy_from_slice(DELETED_TAG);
    blk
}

#[derive(Clone, Debug, PartialEq, Eq)]
pub struct Rec {
    pub key: Vec<u8>,
    pub value: Vec<u8>,
    pub ts: u64,
    pub expiry: u64,
    pub sector: u64,
    pub blocks: u64,
}

#[derive(Clone, Debug, PartialEq, Eq)]
pub enum BlockClass {
    Zero,
    Record { blocks: u64, key: Vec<u8>, ts: u64 },
    Marker { remaining: u64, ok: bool },
    LegacyTombstone,
    Junk,
}

#[derive(Clone, Debug)]
pub struct Decoded {
    pub meta: Meta,
    pub meta_copies: [Option<Meta>; 2],
    pub slots: [Slot; 2],
    /// newest-timestamp-wins (later scan position wins ties, as recovery does)
    pub live: BTreeMap<Vec<u8>, Rec>,
    /// every structurally valid record found by the scan, in scan order
    pub all_records: Vec<Rec>,
    pub classes: Vec<(u64, BlockClass)>,
    /// problems a strict reader of the documented layout would reject
    pub problems: Vec<String>,
}

pub fn decode_image(img: &[u8]) -> Result<Decoded, String> {
    if img.len() % B != 0 || img.len() <= 16 * B {
        return Err(format!("bad image size {}", img.len()));
    }
    let n = (img.len() / B) as u64;
    let blk = |s: u64| &img[s as usize * B..(s as usize + 1) * B];
    let copies = [decode_meta(blk(META_PRIMARY)), decode_meta(blk(META_BACKUP))];
    let meta = match (&copies[0], &copies[1]) {
        (Some(p), Some(b)) if b.generation > p.generation => b.clone(),
        (Some(p), _) => p.clone(),
        (None, Some(b)) => b.clone(),
        (None, None) => return Err("no valid metadata copy".into()),
    };
    let ver = meta.version;
    let slot_bytes = |i: u64| {
        let a = (JOURNAL_START + i * JOURNAL_SLOT_BLOCKS) as usize * B;
        &img[a..a + JOURNAL_SLOT_BLOCKS as usize * B]
    };
    let slots = [decode_slot(slot_bytes(0), n), decode_slot(slot_bytes(1), n)];
    let mut problems = Vec::new();
    let mut live: BTreeMap<Vec<u8>, Rec> = BTreeMap::new();
    let mut all = Vec::new();
    let mut classes = Vec::new();
    let hdr = header_len(ver);
    let mut s = DATA_START;
    while s < n {
        let b = blk(s);
        if &b[..8] == DELETED_TAG {
            if ver < 3 && b[8..].iter().all(|x| *x == 0) {
                classes.push((s, BlockClass::LegacyTombstone));
                s += 1;
                continue;
            }
            let rem = u64::from_le_bytes(b[8..16].try_into().unwrap());
            let tok = u16::from_le_bytes([b[16], b[17]]);
            let st = b[18];
            let ok = tok == marker_token(s, b)
                && st == 1
                && b[19..].iter().all(|x| *x == 0)
                && rem >= 1
                && s.checked_add(rem).is_some_and(|e| e <= n);
            if !ok {
                problems.push(format!("block {s}: bad retirement marker (rem={rem} state={st})"));
            }
            classes.push((s, BlockClass::Marker { remaining: rem, ok }));
            s += 1;
            continue;
        }
        if b.iter().all(|x| *x == 0) {
            classes.push((s, BlockClass::Zero));
            s += 1;
            continue;
        }
        if b[0..2] != RECORD_MARKER {
            classes.push((s, BlockClass::Junk));
            problems.push(format!("block {s}: junk (neither record, marker nor zero)"));
            s += 1;
            continue;
        }
        let tok = u16::from_le_bytes([b[2], b[3]]);
        let kl = u16::from_le_bytes([b[4], b[5]]) as usize;
        if kl == 0 || 6 + kl + hdr > B {
            classes.push((s, BlockClass::Junk));
            problems.push(format!("block {s}: record head with bad key length {kl}"));
            s += 1;
            continue;
        }
        let key = b[6..6 + kl].to_vec();
        let vl = u64::from_le_bytes(b[6 + kl..14 + kl].try_into().unwrap());
        let ts = u64::from_le_bytes(b[14 + kl..22 + kl].try_into().unwrap());
        let ex = if ver >= 2 { u64::from_le_bytes(b[22 + kl..30 + kl].try_into().unwrap()) } else { 0 };
        if vl == 0 || vl > 4 * 1024 * 1024 {
            classes.push((s, BlockClass::Junk));
            problems.push(format!("block {s}: record head with bad value length {vl}"));
            s += 1;
            continue;
        }
        let tot = 6 + kl + hdr + vl as usize;
        let nb = tot.div_ceil(B) as u64;
        if s + nb > n {
            classes.push((s, BlockClass::Junk));
            problems.push(format!("block {s}: record extent leaves the device"));
            s += 1;
            continue;
        }
        let ext = &img[s as usize * B..(s + nb) as usize * B];
        if ver >= 3 {
            if tok == 0 || record_token(s, ext) != tok {
                problems.push(format!("block {s}: record token mismatch"));
                classes.push((s, BlockClass::Junk));
                s += 1;
                continue;
            }
        } else if tok != 0 {
            problems.push(format!("block {s}: legacy record with non-zero token"));
        }
        if !ext[tot..].iter().all(|x| *x == 0) {
            problems.push(format!("block {s}: non-zero padding"));
        }
        let value = ext[6 + kl + hdr..tot].to_vec();
        let rec = Rec { key: key.clone(), value, ts, expiry: ex, sector: s, blocks: nb };
        classes.push((s, BlockClass::Record { blocks: nb, key: key.clone(), ts }));
        all.push(rec.clone());
        let replace = match live.get(&key) {
            Some(old) => old.ts <= ts,
            None => true,
        };
        if replace {
            live.insert(key, rec);
        }
        s += nb;
    }
    Ok(Decoded { meta, meta_copies: copies, slots, live, all_records: all, classes, problems })
}

/// Build an empty legacy (v1/v2) or v3 device image of `blocks` blocks the way the released
/// format laid it out: metadata in block 0 (and 7), everything else zero.
pub fn fresh_image(version: u32, blocks: u64, legacy_plain_meta: bool) -> Vec<u8> {
    let mut img = vec![0u8; blocks as usize * B];
    let m = Meta {
        version,
        records: 0,
        size: 0,
        device_size: blocks * B as u64,
        fragmentation: 0,
        creation: 1_700_000_000,
        update: 1_700_000_000,
        generation: 1,
        has_checksum: !legacy_plain_meta,
    };
    let blk = encode_meta(&m, !legacy_plain_meta);
    img[..B].copy_from_slice(&blk);
    if !legacy_plain_meta {
        img[7 * B..8 * B].copy_from_slice(&blk);
    }
    img
}

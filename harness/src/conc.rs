//! Engine D: multi-threaded programs steered through the scheduling points, with recorded
//! histories judged by whole-history oracles. One case at a time per process; parallelism comes
//! from worker child processes.

use std::sync::atomic::{AtomicBool, AtomicU64, Ordering};
use std::sync::{Arc, Barrier};

use proptest::prelude::*;
use serde::{Deserialize, Serialize};

use crate::env;
use crate::lin::{self, HOp, KOp, KRes};
use crate::model::classify;
use crate::ops::{Config, DevSize};
use crate::sched::{self, Controller, Schedule};
use crate::seq;

// ------------------------------------------------------------------------------------------
// C07 programs
// ------------------------------------------------------------------------------------------

#[derive(Clone, Debug, Serialize, Deserialize, PartialEq, Eq)]
pub struct KeySpec {
    pub explicit: bool,
    pub json: bool,
}

#[derive(Clone, Debug, Serialize, Deserialize, PartialEq, Eq)]
pub enum OpSpec {
    Get,
    Insert { v: u8, ts: u8 },
    Delete { ts: u8 },
    /// expect value id / counter guess, new value id
    Cas { expect: u8, new: u8, ts: u8 },
    Incr { delta: i8, ts: u8 },
    InsertIfAbsent { v: u8 },
    Patch { n: i8, ts: u8 },
}

#[derive(Clone, Debug, Serialize, Deserialize, PartialEq, Eq)]
pub struct LinProgram {
    pub persistent: bool,
    pub cache: bool,
    pub plain_io: bool,
    pub keys: Vec<KeySpec>,
    /// per thread: (key index scaled, op)
    pub threads: Vec<Vec<(u8, OpSpec)>>,
    pub flusher: bool,
    pub schedule: Schedule,
    /// the thread programs are repeated this many times on fresh keys (one history per round and
    /// key) with all threads released together by a spin barrier and a generated per-round skew
    #[serde(default)]
    pub rounds: u16,
    #[serde(default)]
    pub skew_seed: u64,
}

fn opspec() -> BoxedStrategy<OpSpec> {
    prop_oneof![
        5 => Just(OpSpec::Get),
        6 => (0u8..6, 1u8..7).prop_map(|(v, ts)| OpSpec::Insert { v, ts }),
        3 => (1u8..7).prop_map(|ts| OpSpec::Delete { ts }),
        5 => (0u8..6, 0u8..6, 1u8..7).prop_map(|(expect, new, ts)| OpSpec::Cas { expect, new, ts }),
        6 => (prop_oneof![Just(1i8), Just(-1), Just(5)], 1u8..7).prop_map(|(delta, ts)| OpSpec::Incr { delta, ts }),
        3 => (0u8..6).prop_map(|v| OpSpec::InsertIfAbsent { v }),
        2 => (0i8..6, 1u8..7).prop_map(|(n, ts)| OpSpec::Patch { n, ts }),
    ]
    .boxed()
}

pub fn lin_program_strategy() -> BoxedStrategy<LinProgram> {
    (
        any::<bool>(),
        any::<bool>(),
        any::<bool>(),
        proptest::collection::vec((any::<bool>(), proptest::bool::weighted(0.25)).prop_map(|(explicit, json)| KeySpec { explicit, json }), 1..4),
        proptest::collection::vec(proptest::collection::vec((any::<u8>(), opspec()), 2..7), 2..5),
        any::<bool>(),
        sched::schedule_strategy(),
        prop_oneof![2 => Just(1u16), 3 => 20u16..200],
        any::<u64>(),
    )
        .prop_map(|(persistent, cache, plain_io, keys, threads, flusher, schedule, rounds, skew_seed)| {
            // delays and parks multiply with the rounds: keep steered schedules short
            let rounds = if matches!(schedule, Schedule::Free) { rounds } else { rounds.min(24) };
            LinProgram { persistent, cache: persistent && cache, plain_io, keys, threads, flusher: persistent && flusher, schedule, rounds, skew_seed }
        })
        .boxed()
}

fn key_name(i: usize) -> Vec<u8> {
    format!("lk{i}").into_bytes()
}

fn round_key(i: usize, round: usize) -> Vec<u8> {
    if round == 0 {
        key_name(i)
    } else {
        format!("lk{i}r{round}").into_bytes()
    }
}

/// value id -> bytes: counters for plain keys (8 bytes so increments apply), JSON documents for json keys
fn value_bytes(json: bool, v: u8) -> Vec<u8> {
    if json {
        format!("{{\"n\":{v}}}").into_bytes()
    } else {
        (v as i64).to_le_bytes().to_vec()
    }
}

fn resolve(spec: &OpSpec, k: &KeySpec) -> KOp {
    let ts = |t: u8| if k.explicit { Some(t as u64) } else { None };
    match spec {
        OpSpec::Get => KOp::Get,
        OpSpec::Insert { v, ts: t } => KOp::Insert { value: value_bytes(k.json, *v), ts: ts(*t) },
        OpSpec::Delete { ts: t } => KOp::Delete { ts: ts(*t) },
        OpSpec::Cas { expect, new, ts: t } => KOp::Cas { expect: value_bytes(k.json, *expect), new: value_bytes(k.json, *new), ts: ts(*t) },
        OpSpec::Incr { delta, ts: t } => KOp::Incr { delta: *delta as i64, ts: ts(*t) },
        // insert_if_absent always uses an automatic timestamp: only on automatic keys
        OpSpec::InsertIfAbsent { v } => {
            if k.explicit {
                KOp::Get
            } else {
                KOp::InsertIfAbsent { value: value_bytes(k.json, *v) }
            }
        }
        OpSpec::Patch { n, ts: t } => KOp::Patch { n: *n as i64, ts: ts(*t) },
    }
}

pub fn exec_kop(store: &feoxdb::FeoxStore, key: &[u8], op: &KOp) -> KRes {
    fn b(r: feoxdb::Result<bool>) -> KRes {
        match r {
            Ok(x) => KRes::Bool(x),
            Err(e) => KRes::Err(classify(&e)),
        }
    }
    fn u(r: feoxdb::Result<()>) -> KRes {
        match r {
            Ok(()) => KRes::Unit,
            Err(e) => KRes::Err(classify(&e)),
        }
    }
    match op {
        KOp::Get => match store.get(key) {
            Ok(v) => KRes::Bytes(v),
            Err(e) => KRes::Err(classify(&e)),
        },
        KOp::Insert { value, ts } => b(store.insert_with_timestamp(key, value, *ts)),
        KOp::Delete { ts } => u(store.delete_with_timestamp(key, *ts)),
        KOp::Cas { expect, new, ts } => b(store.compare_and_swap_with_timestamp(key, expect, new, *ts)),
        KOp::Incr { delta, ts } => match store.atomic_increment_with_timestamp(key, *delta, *ts) {
            Ok(x) => KRes::I64(x),
            Err(e) => KRes::Err(classify(&e)),
        },
        KOp::InsertIfAbsent { value } => b(store.insert_if_absent(key, value)),
        KOp::Patch { n, ts } => {
            let patch = format!("[{{\"op\":\"replace\",\"path\":\"/n\",\"value\":{n}}}]");
            u(store.json_patch_with_timestamp(key, patch.as_bytes(), *ts))
        }
    }
}

pub struct LinOutcome {
    pub histories: Vec<Vec<HOp>>,
    pub failure: Option<String>,
    pub overlapping: Vec<(String, String)>,
    pub sched_events: u64,
    pub parked: u64,
    pub states_explored: u64,
}

pub fn conc_config(persistent: bool, cache: bool, plain_io: bool, data_blocks: u16) -> Config {
    Config { persistent, version: 3, cache, ttl: false, dev: DevSize::Tiny(data_blocks), max_memory: None, plain_io, legacy_plain_meta: false, visible_cpus: 4 }
}

pub fn run_lin_program(p: &LinProgram) -> LinOutcome {
    feoxdb::verif::set_thread_clock(None);
    let cfg = conc_config(p.persistent, p.cache, p.plain_io, 48);
    let path = p.persistent.then(|| env::fresh_path("lin"));
    if let Some(pth) = &path {
        let _ = std::fs::remove_file(pth);
    }
    let store = match seq::open_store(&cfg, path.as_deref()) {
        Ok(s) => Arc::new(s),
        Err(e) => {
            return LinOutcome { histories: vec![], failure: Some(format!("open failed: {e:?}")), overlapping: vec![], sched_events: 0, parked: 0, states_explored: 0 };
        }
    };
    let ctl = Controller::new(p.schedule.clone());
    sched::install(Some(ctl.clone()));
    let stamp = Arc::new(AtomicU64::new(1));
    let nthreads = p.threads.len();
    let gate = Arc::new(AtomicU64::new(0));
    let barrier = Arc::new(Barrier::new(nthreads + p.flusher as usize));
    let done = Arc::new(AtomicBool::new(false));
    let mut handles = Vec::new();
    for (t, ops) in p.threads.iter().enumerate() {
        let (store, stamp, barrier) = (store.clone(), stamp.clone(), barrier.clone());
        let keys = p.keys.clone();
        let ops = ops.clone();
        let gate = gate.clone();
        let rounds = p.rounds.max(1) as usize;
        let skew_seed = p.skew_seed;
        handles.push(std::thread::spawn(move || {
            let mut out: Vec<(usize, usize, HOp)> = Vec::new();
            barrier.wait();
            let mut lcg = skew_seed ^ (t as u64 + 1).wrapping_mul(0x9E3779B97F4A7C15);
            for round in 0..rounds {
                if rounds > 1 {
                    // spin barrier: release all threads of this round together, then skew them
                    gate.fetch_add(1, Ordering::SeqCst);
                    let target = (nthreads * (round + 1)) as u64;
                    let _g = env::watch("round barrier");
                    while gate.load(Ordering::SeqCst) < target {
                        std::hint::spin_loop();
                    }
                    lcg = lcg.wrapping_mul(6364136223846793005).wrapping_add(1442695040888963407);
                    for _ in 0..((lcg >> 33) % 300) {
                        std::hint::spin_loop();
                    }
                }
                for (kx, spec) in &ops {
                    let ki = (*kx as usize * keys.len()) >> 8;
                    let op = resolve(spec, &keys[ki]);
                    let key = round_key(ki, round);
                    let _g = env::watch("concurrent call");
                    let inv = stamp.fetch_add(1, Ordering::SeqCst);
                    let result = exec_kop(&store, &key, &op);
                    let res = stamp.fetch_add(1, Ordering::SeqCst);
                    out.push((round, ki, HOp { thread: t as u8, inv, res, op, result }));
                }
            }
            out
        }));
    }
    let flusher = p.flusher.then(|| {
        let (store, barrier, done) = (store.clone(), barrier.clone(), done.clone());
        std::thread::spawn(move || {
            barrier.wait();
            while !done.load(Ordering::Acquire) {
                let _g = env::watch("concurrent flush");
                let _ = store.flush();
                std::thread::yield_now();
            }
        })
    });
    let rounds = p.rounds.max(1) as usize;
    let nk = p.keys.len();
    // one history per (round, key): index round * nk + key
    let mut histories: Vec<Vec<HOp>> = vec![Vec::new(); nk * rounds];
    for h in handles {
        if let Ok(list) = h.join() {
            for (round, ki, op) in list {
                histories[round * nk + ki].push(op);
            }
        }
    }
    done.store(true, Ordering::Release);
    if let Some(f) = flusher {
        let _ = f.join();
    }
    sched::install(None);
    // final reads (sequential, after everything)
    for (hi, h) in histories.iter_mut().enumerate() {
        let key = round_key(hi % nk, hi / nk);
        let mut result = KRes::Err(crate::model::ErrKind::StaleExtent);
        for _ in 0..5 {
            let inv = stamp.fetch_add(1, Ordering::SeqCst);
            result = exec_kop(&store, &key, &KOp::Get);
            let res = stamp.fetch_add(1, Ordering::SeqCst);
            if result != KRes::Err(crate::model::ErrKind::StaleExtent) {
                h.push(HOp { thread: 250, inv, res, op: KOp::Get, result: result.clone() });
                break;
            }
        }
        let _ = result;
        h.sort_by_key(|o| o.inv);
    }
    let mut failure = None;
    let mut overlapping = Vec::new();
    let mut explored = 0;
    for (hi, h) in histories.iter().enumerate() {
        let ki = hi % nk;
        if h.len() > 60 {
            continue;
        }
        let r = lin::check_key(h, p.keys[ki].explicit, p.persistent);
        explored += r.states_explored;
        overlapping.extend(lin::overlapping_pairs(h));
        if !r.ok && failure.is_none() {
            failure = Some(format!(
                "key {} ({} timestamps{}): no sequential last-writer-wins execution explains the history: {}",
                String::from_utf8_lossy(&round_key(ki, hi / nk)),
                if p.keys[ki].explicit { "explicit" } else { "automatic" },
                if p.persistent { ", persistent" } else { "" },
                h.iter().map(|o| format!("[t{} {}-{} {:?} -> {:?}]", o.thread, o.inv, o.res, o.op, o.result)).collect::<Vec<_>>().join(" ")
            ));
        }
    }
    let out = LinOutcome { histories, failure, overlapping, sched_events: ctl.events(), parked: ctl.parked.load(Ordering::Relaxed), states_explored: explored };
    env::reap(store, path);
    out
}

// ------------------------------------------------------------------------------------------
// C08 programs: one writer per key, readers, flusher; generation-window oracle
// ------------------------------------------------------------------------------------------

#[derive(Clone, Debug, Serialize, Deserialize, PartialEq, Eq)]
pub enum WOp {
    /// value occupying about `blocks` blocks (0 = small) plus `extra` bytes
    Put { blocks: u8, extra: u16 },
    Delete,
    UpdateTtl,
    Persist,
    Incr(i8),
    /// compare-and-swap from the current value to a new one (sole modifier: must succeed)
    CasSelf { blocks: u8, extra: u16 },
    Pause(u8),
    /// wait (bounded) until the key's current generation has been written to the device
    Settle,
    /// (key 0 of an expiry program only) value with a TTL of one second of virtual time
    PutShortTtl { blocks: u8, extra: u16 },
    /// (key 0 of an expiry program only) the virtual clock jumps two seconds ahead: a generation
    /// written by PutShortTtl expires; optionally followed by a delete of the expired key
    Expire { then_delete: bool },
}

#[derive(Clone, Debug, Serialize, Deserialize, PartialEq, Eq)]
pub enum ROp {
    Get(u8),
    GetBytes(u8),
    Range,
    CasProbe(u8),
}

#[derive(Clone, Debug, Serialize, Deserialize, PartialEq, Eq)]
pub struct RaceProgram {
    pub cache: bool,
    pub plain_io: bool,
    pub data_blocks: u16,
    /// per key: is it a counter key (8-byte values, increments)
    pub counters: Vec<bool>,
    pub writers: Vec<Vec<WOp>>,
    pub readers: Vec<Vec<ROp>>,
    pub flush_pause_us: u16,
    pub schedule: Schedule,
    /// key 0 gets short-TTL generations that expire under the readers (virtual clock jumps)
    #[serde(default)]
    pub expiry: bool,
}

fn wop_expiry() -> BoxedStrategy<WOp> {
    prop_oneof![
        6 => (0u8..4, 0u16..3000).prop_map(|(blocks, extra)| WOp::PutShortTtl { blocks, extra }),
        2 => (0u8..4, 0u16..3000).prop_map(|(blocks, extra)| WOp::Put { blocks, extra }),
        6 => any::<bool>().prop_map(|then_delete| WOp::Expire { then_delete }),
        1 => Just(WOp::Delete),
        1 => Just(WOp::UpdateTtl),
        1 => (0u8..3).prop_map(WOp::Pause),
        8 => Just(WOp::Settle),
    ]
    .boxed()
}

fn wop(counter: bool) -> BoxedStrategy<WOp> {
    if counter {
        prop_oneof![6 => prop_oneof![Just(1i8), Just(-1), Just(7)].prop_map(WOp::Incr), 1 => Just(WOp::Delete), 1 => Just(WOp::UpdateTtl), 1 => (0u8..3).prop_map(WOp::Pause), 3 => Just(WOp::Settle)].boxed()
    } else {
        prop_oneof![
            8 => (0u8..4, 0u16..3000).prop_map(|(blocks, extra)| WOp::Put { blocks, extra }),
            3 => Just(WOp::Delete),
            4 => Just(WOp::UpdateTtl),
            2 => Just(WOp::Persist),
            3 => (0u8..4, 0u16..3000).prop_map(|(blocks, extra)| WOp::CasSelf { blocks, extra }),
            1 => (0u8..3).prop_map(WOp::Pause),
            7 => Just(WOp::Settle),
        ]
        .boxed()
    }
}

pub fn race_program_strategy() -> BoxedStrategy<RaceProgram> {
    let rop = prop_oneof![6 => any::<u8>().prop_map(ROp::Get), 3 => any::<u8>().prop_map(ROp::GetBytes), 2 => Just(ROp::Range), 1 => any::<u8>().prop_map(ROp::CasProbe)];
    (
        any::<bool>(),
        any::<bool>(),
        // from devices that run full (flush answers OutOfSpace, retirements run to make room) to roomy ones
        prop_oneof![2 => 5u16..24, 3 => 24u16..64],
        proptest::collection::vec(proptest::bool::weighted(0.25), 1..5),
        proptest::collection::vec(proptest::collection::vec(rop, 6..40), 1..4),
        prop_oneof![Just(0u16), Just(50), Just(400), Just(3000)],
        sched::schedule_strategy(),
    )
        .prop_flat_map(|(cache, plain_io, data_blocks, counters, readers, flush_pause_us, schedule)| (Just((cache, plain_io, data_blocks, counters, readers, flush_pause_us, schedule)), proptest::bool::weighted(0.3)))
        .prop_flat_map(|((cache, plain_io, data_blocks, mut counters, readers, flush_pause_us, schedule), expiry)| {
            if expiry {
                counters[0] = false;
            }
            let writers: Vec<BoxedStrategy<Vec<WOp>>> = counters.iter().enumerate().map(|(i, c)| if expiry && i == 0 { proptest::collection::vec(wop_expiry(), 6..24).boxed() } else { proptest::collection::vec(wop(*c), 4..24).boxed() }).collect();
            (Just(cache), Just(plain_io), Just(data_blocks), Just(counters), writers, Just(readers), Just(flush_pause_us), Just(schedule), Just(expiry))
        })
        .prop_map(|(cache, plain_io, data_blocks, counters, writers, readers, flush_pause_us, schedule, expiry)| RaceProgram { cache, plain_io, data_blocks, counters, writers, readers, flush_pause_us, schedule, expiry })
        .boxed()
}

fn race_key(i: usize) -> Vec<u8> {
    format!("rk{i}").into_bytes()
}

/// state of a key after the s-th writer call: None = absent, Some(id) = value identity
/// (stamp generation for stamped values, the counter value for counters)
#[derive(Clone, Debug, PartialEq, Eq, Serialize, Deserialize)]
pub enum VState {
    Absent,
    Stamp(u32),
    Counter(i64),
}

#[derive(Clone, Debug, Serialize, Deserialize)]
pub struct Observation {
    pub reader: u8,
    pub key: u8,
    pub lo: u32,
    pub hi: u32,
    pub what: String,
    /// Ok(identity) | NotFound | Stale | Garbage(description) | Error(description)
    pub outcome: ObsOutcome,
}

#[derive(Clone, Debug, Serialize, Deserialize, PartialEq, Eq)]
pub enum ObsOutcome {
    Value(VState),
    NotFound,
    Stale,
    Garbage(String),
    Error(String),
}

pub struct RaceOutcome {
    pub failure: Option<(String, String)>,
    pub observations: Vec<Observation>,
    pub states: Vec<Vec<VState>>,
    pub disk_reads: u64,
    pub overlapping_reads: u64,
    pub parked: u64,
    pub sched_events: u64,
    pub stale_seen: u64,
}

fn classify_value(key_idx: usize, counter: bool, v: &[u8]) -> ObsOutcome {
    if counter {
        if v.len() == 8 {
            ObsOutcome::Value(VState::Counter(i64::from_le_bytes(v.try_into().unwrap())))
        } else {
            ObsOutcome::Garbage(format!("counter key returned {} bytes", v.len()))
        }
    } else {
        match seq::stamp_check(v) {
            Ok((kid, gen)) if kid as usize == key_idx => ObsOutcome::Value(VState::Stamp(gen)),
            Ok((kid, gen)) => ObsOutcome::Garbage(format!("complete value of ANOTHER key (key id {kid}, generation {gen}, {} bytes)", v.len())),
            Err(e) => ObsOutcome::Garbage(format!("{} bytes that are no complete generation: {e}; head {:?}", v.len(), &v[..v.len().min(24)])),
        }
    }
}

pub fn run_race_program(p: &RaceProgram) -> RaceOutcome {
    use std::sync::atomic::AtomicU32;
    feoxdb::verif::set_thread_clock(None);
    // expiry programs run on a virtual clock that only writer 0 moves (two seconds per jump)
    const RACE_T0: u64 = 1_800_000_000_000_000_000;
    let vclock = Arc::new(AtomicU64::new(RACE_T0));
    feoxdb::verif::set_global_clock(p.expiry.then_some(RACE_T0));
    let mut cfg = conc_config(true, p.cache, p.plain_io, p.data_blocks);
    cfg.ttl = true;
    let path = env::fresh_path("race");
    std::fs::File::create(&path).expect("create");
    let dev = crate::trace::register(&path, false);
    let store = match seq::open_store(&cfg, Some(&path)) {
        Ok(s) => Arc::new(s),
        Err(e) => {
            return RaceOutcome { failure: Some(("open-failed".into(), format!("{e:?}"))), observations: vec![], states: vec![], disk_reads: 0, overlapping_reads: 0, parked: 0, sched_events: 0, stale_seen: 0 };
        }
    };
    let nkeys = p.counters.len();
    let started: Arc<Vec<AtomicU32>> = Arc::new((0..nkeys).map(|_| AtomicU32::new(0)).collect());
    let completed: Arc<Vec<AtomicU32>> = Arc::new((0..nkeys).map(|_| AtomicU32::new(0)).collect());
    let ctl = Controller::new(p.schedule.clone());
    {
        let dev = dev.clone();
        *ctl.on_park_read.lock().unwrap() = Some(Box::new(move |sector, blocks, enter| {
            let mut d = dev.lock().unwrap();
            if enter {
                d.watch_overwrite.push((sector, blocks));
            } else if let Some(pos) = d.watch_overwrite.iter().position(|x| *x == (sector, blocks)) {
                d.watch_overwrite.remove(pos);
            }
        }));
    }
    sched::install(Some(ctl.clone()));
    let total_threads = nkeys + p.readers.len() + 1;
    let barrier = Arc::new(Barrier::new(total_threads));
    let writers_done = Arc::new(AtomicU32::new(0));
    let all_done = Arc::new(AtomicBool::new(false));
    // writers
    let mut whandles = Vec::new();
    for ki in 0..nkeys {
        let (store, barrier, started, completed, writers_done) = (store.clone(), barrier.clone(), started.clone(), completed.clone(), writers_done.clone());
        let ops = p.writers[ki].clone();
        let counter = p.counters[ki];
        let vclock = vclock.clone();
        let expiry_mode = p.expiry && ki == 0;
        whandles.push(std::thread::spawn(move || {
            let key = race_key(ki);
            let mut states: Vec<VState> = vec![VState::Absent];
            let mut gen = 0u32;
            // the current generation of key 0 carries the one-second TTL
            let mut short_ttl = false;
            let mut errors: Vec<(String, String)> = Vec::new();
            let mut cur_bytes: Option<Vec<u8>> = None;
            barrier.wait();
            for op in &ops {
                let cur = states.last().unwrap().clone();
                let make = |gen: u32, blocks: u8, extra: u16| -> Vec<u8> {
                    let len = if blocks == 0 { 14 + extra as usize % 600 } else { blocks as usize * 4096 - 40 + extra as usize % 200 };
                    let mut v = vec![0u8; len];
                    seq::stamp_fill(&mut v, ki as u16, gen);
                    v
                };
                let _g = env::watch("writer call");
                match op {
                    WOp::Pause(n) => {
                        std::thread::sleep(std::time::Duration::from_micros(*n as u64 * 150));
                        continue;
                    }
                    WOp::Settle => {
                        let t = std::time::Instant::now();
                        while t.elapsed() < std::time::Duration::from_millis(4) {
                            match store.verif_peek(&key) {
                                Some(p) if p.sector == 0 => std::thread::sleep(std::time::Duration::from_micros(100)),
                                _ => break,
                            }
                        }
                        continue;
                    }
                    WOp::PutShortTtl { blocks, extra } => {
                        if !expiry_mode {
                            continue;
                        }
                        gen += 1;
                        let v = make(gen, *blocks, *extra);
                        started[ki].store(states.len() as u32, Ordering::SeqCst);
                        let r = store.insert_with_ttl(&key, &v, 1);
                        states.push(VState::Stamp(gen));
                        completed[ki].store(states.len() as u32 - 1, Ordering::SeqCst);
                        cur_bytes = Some(v);
                        short_ttl = true;
                        if let Err(e) = r {
                            errors.push(("writer-call-failed".into(), format!("insert_with_ttl on the writer's own key failed: {e:?}")));
                        }
                    }
                    WOp::Expire { then_delete } => {
                        if !expiry_mode || !short_ttl || cur == VState::Absent {
                            continue;
                        }
                        started[ki].store(states.len() as u32, Ordering::SeqCst);
                        let now = vclock.fetch_add(2_000_000_000, Ordering::SeqCst) + 2_000_000_000;
                        feoxdb::verif::set_global_clock(Some(now));
                        if *then_delete {
                            // the key is expired: the delete may report not-found or remove it
                            let _ = store.delete(&key);
                        }
                        states.push(VState::Absent);
                        completed[ki].store(states.len() as u32 - 1, Ordering::SeqCst);
                        cur_bytes = None;
                        short_ttl = false;
                    }
                    WOp::Put { blocks, extra } => {
                        short_ttl = false;
                        gen += 1;
                        let v = if counter { (gen as i64).to_le_bytes().to_vec() } else { make(gen, *blocks, *extra) };
                        let next = if counter { VState::Counter(gen as i64) } else { VState::Stamp(gen) };
                        started[ki].store(states.len() as u32, Ordering::SeqCst);
                        let r = store.insert(&key, &v);
                        states.push(next);
                        completed[ki].store(states.len() as u32 - 1, Ordering::SeqCst);
                        cur_bytes = Some(v);
                        if let Err(e) = r {
                            errors.push(("writer-call-failed".into(), format!("insert on the writer's own key failed: {e:?}")));
                        }
                    }
                    WOp::Delete => {
                        if cur == VState::Absent {
                            continue;
                        }
                        started[ki].store(states.len() as u32, Ordering::SeqCst);
                        let r = store.delete(&key);
                        states.push(VState::Absent);
                        completed[ki].store(states.len() as u32 - 1, Ordering::SeqCst);
                        cur_bytes = None;
                        if let Err(e) = r {
                            errors.push(("writer-call-failed".into(), format!("delete of the writer's own present key failed: {e:?}")));
                        }
                    }
                    WOp::UpdateTtl | WOp::Persist => {
                        if cur == VState::Absent {
                            continue;
                        }
                        short_ttl = false;
                        started[ki].store(states.len() as u32, Ordering::SeqCst);
                        let r = if matches!(op, WOp::UpdateTtl) { store.update_ttl(&key, 3600) } else { store.persist(&key) };
                        states.push(cur.clone());
                        completed[ki].store(states.len() as u32 - 1, Ordering::SeqCst);
                        if let Err(e) = r {
                            errors.push(("writer-call-failed".into(), format!("TTL-only update of the writer's own present key failed: {e:?}")));
                        }
                    }
                    WOp::Incr(d) => {
                        let expect = match &cur {
                            VState::Counter(c) => c.saturating_add(*d as i64),
                            VState::Absent => *d as i64,
                            _ => continue,
                        };
                        started[ki].store(states.len() as u32, Ordering::SeqCst);
                        let r = store.atomic_increment(&key, *d as i64);
                        states.push(VState::Counter(expect));
                        completed[ki].store(states.len() as u32 - 1, Ordering::SeqCst);
                        cur_bytes = Some(expect.to_le_bytes().to_vec());
                        match r {
                            Ok(x) if x == expect => {}
                            Ok(x) => errors.push(("writer-increment-wrong".into(), format!("the sole modifier of a counter incremented {cur:?} by {d} and got {x}, expected {expect}"))),
                            Err(e) => errors.push(("writer-call-failed".into(), format!("increment by the sole modifier failed: {e:?}"))),
                        }
                    }
                    WOp::CasSelf { blocks, extra } => {
                        let Some(curb) = cur_bytes.clone() else { continue };
                        if counter || short_ttl {
                            continue;
                        }
                        gen += 1;
                        let v = make(gen, *blocks, *extra);
                        started[ki].store(states.len() as u32, Ordering::SeqCst);
                        let r = store.compare_and_swap(&key, &curb, &v);
                        match r {
                            Ok(true) => {
                                states.push(VState::Stamp(gen));
                                cur_bytes = Some(v);
                            }
                            Ok(false) => {
                                states.push(cur.clone());
                                errors.push(("writer-cas-refused".into(), "compare-and-swap by the sole modifier of a key, expecting its current value, reported no swap".to_string()));
                            }
                            Err(e) => {
                                states.push(cur.clone());
                                errors.push(("writer-call-failed".into(), format!("compare-and-swap by the sole modifier failed: {e:?}")));
                            }
                        }
                        completed[ki].store(states.len() as u32 - 1, Ordering::SeqCst);
                    }
                }
            }
            writers_done.fetch_add(1, Ordering::SeqCst);
            (states, errors)
        }));
    }
    // readers
    let mut rhandles = Vec::new();
    for (ri, ops) in p.readers.iter().enumerate() {
        let (store, barrier, started, completed, writers_done) = (store.clone(), barrier.clone(), started.clone(), completed.clone(), writers_done.clone());
        let ops = ops.clone();
        let counters = p.counters.clone();
        rhandles.push(std::thread::spawn(move || {
            let mut obs: Vec<Observation> = Vec::new();
            let nkeys = counters.len();
            barrier.wait();
            let mut round = 0;
            // keep reading until the writers are done (at least one pass, at most 40)
            loop {
                for op in &ops {
                    let _g = env::watch("reader call");
                    match op {
                        ROp::Get(k) | ROp::GetBytes(k) | ROp::CasProbe(k) => {
                            let ki = (*k as usize * nkeys) >> 8;
                            let key = race_key(ki);
                            let lo = completed[ki].load(Ordering::SeqCst);
                            let (what, outcome) = match op {
                                ROp::Get(_) => ("get", match store.get(&key) {
                                    Ok(v) => classify_value(ki, counters[ki], &v),
                                    Err(feoxdb::FeoxError::KeyNotFound) => ObsOutcome::NotFound,
                                    Err(feoxdb::FeoxError::StaleExtent) => ObsOutcome::Stale,
                                    Err(e) => ObsOutcome::Error(format!("{e:?}")),
                                }),
                                ROp::GetBytes(_) => ("get_bytes", match store.get_bytes(&key) {
                                    Ok(v) => classify_value(ki, counters[ki], &v),
                                    Err(feoxdb::FeoxError::KeyNotFound) => ObsOutcome::NotFound,
                                    Err(feoxdb::FeoxError::StaleExtent) => ObsOutcome::Stale,
                                    Err(e) => ObsOutcome::Error(format!("{e:?}")),
                                }),
                                _ => ("cas_probe", match store.compare_and_swap(&key, b"\x01never-a-value\x02", b"probe") {
                                    Ok(false) => ObsOutcome::Stale, // carries no information
                                    Ok(true) => ObsOutcome::Garbage("a compare-and-swap expecting an impossible value swapped".into()),
                                    Err(e) => ObsOutcome::Error(format!("{e:?}")),
                                }),
                            };
                            let hi = started[ki].load(Ordering::SeqCst);
                            let probe = matches!(op, ROp::CasProbe(_));
                            if !(probe && outcome == ObsOutcome::Stale) {
                                obs.push(Observation { reader: ri as u8, key: ki as u8, lo, hi: hi.max(lo), what: what.into(), outcome });
                            }
                        }
                        ROp::Range => {
                            let los: Vec<u32> = (0..nkeys).map(|i| completed[i].load(Ordering::SeqCst)).collect();
                            let r = store.range_query(b"rk", b"rk~", 100);
                            let his: Vec<u32> = (0..nkeys).map(|i| started[i].load(Ordering::SeqCst)).collect();
                            match r {
                                Ok(pairs) => {
                                    let mut seen = vec![false; nkeys];
                                    let mut prev: Option<Vec<u8>> = None;
                                    for (k, v) in pairs {
                                        if prev.as_ref().is_some_and(|p| *p >= k) {
                                            obs.push(Observation { reader: ri as u8, key: 0, lo: 0, hi: 0, what: "range".into(), outcome: ObsOutcome::Garbage("range result not strictly ascending".into()) });
                                        }
                                        prev = Some(k.clone());
                                        match (0..nkeys).find(|i| race_key(*i) == k) {
                                            Some(ki) => {
                                                seen[ki] = true;
                                                obs.push(Observation { reader: ri as u8, key: ki as u8, lo: los[ki], hi: his[ki].max(los[ki]), what: "range".into(), outcome: classify_value(ki, counters[ki], &v) });
                                            }
                                            None => obs.push(Observation { reader: ri as u8, key: 0, lo: 0, hi: 0, what: "range".into(), outcome: ObsOutcome::Garbage(format!("range returned a key nobody wrote: {:?}", String::from_utf8_lossy(&k))) }),
                                        }
                                    }
                                    for ki in 0..nkeys {
                                        if !seen[ki] {
                                            // absent, or skipped because it was being rewritten
                                            obs.push(Observation { reader: ri as u8, key: ki as u8, lo: los[ki], hi: his[ki].max(los[ki]), what: "range-missing".into(), outcome: ObsOutcome::NotFound });
                                        }
                                    }
                                }
                                Err(e) => obs.push(Observation { reader: ri as u8, key: 0, lo: 0, hi: 0, what: "range".into(), outcome: ObsOutcome::Error(format!("{e:?}")) }),
                            }
                        }
                    }
                }
                round += 1;
                if writers_done.load(Ordering::SeqCst) as usize >= nkeys || round >= 40 {
                    break;
                }
            }
            obs
        }));
    }
    // flusher
    let fh = {
        let (store, barrier, all_done) = (store.clone(), barrier.clone(), all_done.clone());
        let pause = p.flush_pause_us;
        std::thread::spawn(move || {
            barrier.wait();
            while !all_done.load(Ordering::Acquire) {
                {
                    let _g = env::watch("race flush");
                    let _ = store.flush();
                }
                if pause > 0 {
                    std::thread::sleep(std::time::Duration::from_micros(pause as u64));
                } else {
                    std::thread::yield_now();
                }
            }
        })
    };
    let mut states: Vec<Vec<VState>> = Vec::new();
    let mut failure: Option<(String, String)> = None;
    for h in whandles {
        match h.join() {
            Ok((s, errs)) => {
                states.push(s);
                if failure.is_none() {
                    failure = errs.into_iter().next();
                }
            }
            Err(_) => {
                states.push(vec![VState::Absent]);
                failure.get_or_insert(("writer-panicked".into(), "a writer thread panicked".into()));
            }
        }
    }
    let mut observations = Vec::new();
    for h in rhandles {
        match h.join() {
            Ok(o) => observations.extend(o),
            Err(_) => {
                failure.get_or_insert(("reader-panicked".into(), "a reader thread panicked inside the store".into()));
            }
        }
    }
    all_done.store(true, Ordering::Release);
    let _ = fh.join();
    sched::install(None);
    let _ = &vclock;
    // judge the observations against the per-key state lists
    let mut overlapping = 0u64;
    let mut stale_seen = 0u64;
    if failure.is_none() {
        for o in &observations {
            let msg_prefix = format!("reader {} {} on key {} (window of writer states {}..={})", o.reader, o.what, String::from_utf8_lossy(&race_key(o.key as usize)), o.lo, o.hi);
            match &o.outcome {
                ObsOutcome::Garbage(d) => {
                    failure = Some(("foreign-or-torn-bytes".into(), format!("{msg_prefix} returned {d}")));
                    break;
                }
                ObsOutcome::Error(e) => {
                    failure = Some(("read-error".into(), format!("{msg_prefix} failed with {e}")));
                    break;
                }
                _ => {}
            }
            let st = &states[o.key as usize];
            let lo = (o.lo as usize).min(st.len() - 1);
            let hi = (o.hi as usize).min(st.len() - 1);
            if hi > lo {
                overlapping += 1;
            }
            let window = &st[lo..=hi];
            match &o.outcome {
                ObsOutcome::Value(v) => {
                    if !window.contains(v) {
                        let older = st[..lo].contains(v);
                        failure = Some((if older { "stale-value" } else { "value-outside-window" }.into(), format!("{msg_prefix} returned {v:?}, which is {} ; states in the window: {window:?}", if older { "a generation older than the last update completed before the read began" } else { "not a value the key had during the read" })));
                        break;
                    }
                }
                ObsOutcome::NotFound => {
                    // a range scan may also skip a key that is being rewritten (stale extent)
                    let skipped_ok = o.what == "range-missing" && hi > lo;
                    if !window.contains(&VState::Absent) && !skipped_ok {
                        failure = Some(("present-key-not-found".into(), format!("{msg_prefix} reported not-found but the key was present during the whole call: {window:?}")));
                        break;
                    }
                }
                ObsOutcome::Stale => {
                    stale_seen += 1;
                    if hi == lo {
                        failure = Some(("stale-extent-without-rewrite".into(), format!("{msg_prefix} returned StaleExtent although the key was not modified during the call")));
                        break;
                    }
                }
                _ => {}
            }
        }
    }
    // quiescence: every key reads back as its last state (a lost or masked update would show here)
    if failure.is_none() {
        let _ = store.flush();
        for (ki, st) in states.iter().enumerate() {
            let key = race_key(ki);
            let want = st.last().unwrap();
            for attempt in 0..2 {
                let got = match store.get(&key) {
                    Ok(v) => classify_value(ki, p.counters[ki], &v),
                    Err(feoxdb::FeoxError::KeyNotFound) => ObsOutcome::NotFound,
                    Err(e) => ObsOutcome::Error(format!("{e:?}")),
                };
                let ok = match (&got, want) {
                    (ObsOutcome::NotFound, VState::Absent) => true,
                    (ObsOutcome::Value(v), w) => v == w,
                    _ => false,
                };
                if !ok && failure.is_none() {
                    failure = Some(("final-state-wrong".into(), format!("after all threads finished (read {} of 2), get({}) = {got:?} but the writer's last state is {want:?}", attempt + 1, String::from_utf8_lossy(&key))));
                }
            }
        }
    }
    let hits = dev.lock().unwrap().overwrite_hits.clone();
    if failure.is_none() && !hits.is_empty() {
        failure = Some(("extent-overwritten-while-read".into(), format!("device blocks {:?} were overwritten while a reader held them between locating and reading the extent", hits)));
    }
    let disk_reads = ctl.arrivals_at("after_sector_load");
    let out = RaceOutcome { failure, observations, states, disk_reads, overlapping_reads: overlapping, parked: ctl.parked.load(Ordering::Relaxed), sched_events: ctl.events(), stale_seen };
    crate::trace::unregister(&path);
    env::reap(store, Some(path));
    out
}

// ------------------------------------------------------------------------------------------
// C14 (concurrent part): scans racing writers next to stable keys
// ------------------------------------------------------------------------------------------

#[derive(Clone, Debug, Serialize, Deserialize, PartialEq, Eq)]
pub enum ChurnOp {
    Insert(u16),
    InsertBytes(u16),
    Delete(u16),
    InsertIfAbsent(u16),
    Flush,
}

#[derive(Clone, Debug, Serialize, Deserialize, PartialEq, Eq)]
pub struct ScanProgram {
    pub persistent: bool,
    pub cache: bool,
    pub stable: u16,
    /// writers; key index scaled over the churn keys; even churn keys are owned by writer (i % writers),
    /// odd churn keys are shared by all writers
    pub writers: Vec<Vec<ChurnOp>>,
    /// scans: (start scaled, span, limit)
    pub scanners: Vec<Vec<(u16, u16, u16)>>,
    pub schedule: Schedule,
}

pub fn scan_program_strategy() -> BoxedStrategy<ScanProgram> {
    let cop = prop_oneof![
        6 => any::<u16>().prop_map(ChurnOp::Insert),
        5 => any::<u16>().prop_map(ChurnOp::InsertBytes),
        8 => any::<u16>().prop_map(ChurnOp::Delete),
        2 => any::<u16>().prop_map(ChurnOp::InsertIfAbsent),
        1 => Just(ChurnOp::Flush),
    ];
    (
        any::<bool>(),
        any::<bool>(),
        prop_oneof![3 => 6u16..40, 1 => 260u16..330],
        proptest::collection::vec(proptest::collection::vec(cop, 20..120), 2..4),
        proptest::collection::vec(proptest::collection::vec((any::<u16>(), prop_oneof![1u16..8, 8u16..400], prop_oneof![Just(1u16), 2u16..10, Just(1000u16)]), 5..40), 1..3),
        sched::schedule_strategy(),
    )
        .prop_map(|(persistent, cache, stable, writers, scanners, schedule)| ScanProgram { persistent, cache: persistent && cache, stable, writers, scanners, schedule })
        .boxed()
}

fn stable_key(i: usize) -> Vec<u8> {
    format!("s{i:04}").into_bytes()
}
fn churn_key(i: usize) -> Vec<u8> {
    format!("s{i:04}x").into_bytes()
}

pub struct ScanOutcome {
    pub failure: Option<(String, String)>,
    pub scans: u64,
    pub scans_overlapping_churn: u64,
    pub sched_events: u64,
}

pub fn run_scan_program(p: &ScanProgram) -> ScanOutcome {
    use std::sync::atomic::AtomicU32;
    feoxdb::verif::set_thread_clock(None);
    let cfg = Config { persistent: p.persistent, version: 3, cache: p.cache, ttl: false, dev: DevSize::Normal, max_memory: None, plain_io: true, legacy_plain_meta: false, visible_cpus: 4 };
    let path = p.persistent.then(|| env::fresh_path("scan"));
    let store = match seq::open_store(&cfg, path.as_deref()) {
        Ok(s) => Arc::new(s),
        Err(e) => return ScanOutcome { failure: Some(("open-failed".into(), format!("{e:?}"))), scans: 0, scans_overlapping_churn: 0, sched_events: 0 },
    };
    let n = p.stable as usize;
    let value = |id: usize, gen: u32| -> Vec<u8> {
        let mut v = vec![0u8; 40 + id % 90];
        seq::stamp_fill(&mut v, id as u16, gen);
        v
    };
    // stable keys carry ids 0..n, churn keys n..2n
    for i in 0..n {
        let _ = store.insert(&stable_key(i), &value(i, 1));
    }
    if p.persistent {
        let _ = store.flush();
    }
    // per churn key: epoch (bumped when a creating call starts) and state 0 = surely absent
    let epochs: Arc<Vec<AtomicU32>> = Arc::new((0..n).map(|_| AtomicU32::new(0)).collect());
    let present: Arc<Vec<AtomicU32>> = Arc::new((0..n).map(|_| AtomicU32::new(0)).collect());
    let activity = Arc::new(AtomicU64::new(0));
    let ctl = Controller::new(p.schedule.clone());
    sched::install(Some(ctl.clone()));
    let nw = p.writers.len();
    let barrier = Arc::new(Barrier::new(nw + p.scanners.len()));
    let writers_done = Arc::new(AtomicU32::new(0));
    let mut wh = Vec::new();
    for (w, ops) in p.writers.iter().enumerate() {
        let (store, barrier, epochs, present, activity, writers_done) = (store.clone(), barrier.clone(), epochs.clone(), present.clone(), activity.clone(), writers_done.clone());
        let ops = ops.clone();
        wh.push(std::thread::spawn(move || {
            let mut gen = 1u32;
            barrier.wait();
            for op in &ops {
                let _g = env::watch("churn call");
                let pick = |x: u16| -> usize {
                    let c = (x as usize * n) >> 16;
                    if c % 2 == 0 && (c / 2) % nw != w {
                        // not the owner: use the neighbouring shared (odd) key instead
                        if c + 1 < n {
                            c + 1
                        } else if c >= 1 {
                            c - 1
                        } else {
                            usize::MAX
                        }
                    } else {
                        c
                    }
                };
                activity.fetch_add(1, Ordering::SeqCst);
                match op {
                    ChurnOp::Insert(x) | ChurnOp::InsertBytes(x) | ChurnOp::InsertIfAbsent(x) => {
                        let c = pick(*x);
                        if c == usize::MAX {
                            continue;
                        }
                        gen += 1;
                        epochs[c].fetch_add(1, Ordering::SeqCst);
                        present[c].store(1, Ordering::SeqCst);
                        let v = value(n + c, gen);
                        let _ = match op {
                            ChurnOp::Insert(_) => store.insert(&churn_key(c), &v),
                            ChurnOp::InsertBytes(_) => store.insert_bytes(&churn_key(c), bytes::Bytes::from(v)),
                            _ => store.insert_if_absent(&churn_key(c), &v),
                        };
                    }
                    ChurnOp::Delete(x) => {
                        let c = pick(*x);
                        if c == usize::MAX {
                            continue;
                        }
                        let r = store.delete(&churn_key(c));
                        // only the owner of an owned key may declare it surely absent
                        if c % 2 == 0 && (c / 2) % nw == w && (r.is_ok() || matches!(r, Err(feoxdb::FeoxError::KeyNotFound))) {
                            present[c].store(0, Ordering::SeqCst);
                        }
                    }
                    ChurnOp::Flush => {
                        let _ = store.flush();
                    }
                }
                activity.fetch_add(1, Ordering::SeqCst);
            }
            writers_done.fetch_add(1, Ordering::SeqCst);
        }));
    }
    let mut sh = Vec::new();
    for scans in &p.scanners {
        let (store, barrier, epochs, present, activity, writers_done) = (store.clone(), barrier.clone(), epochs.clone(), present.clone(), activity.clone(), writers_done.clone());
        let scans = scans.clone();
        sh.push(std::thread::spawn(move || {
            let mut failure: Option<(String, String)> = None;
            let mut count = 0u64;
            let mut overlapping = 0u64;
            barrier.wait();
            'outer: for round in 0..30 {
                for (s, span, limit) in &scans {
                    let _g = env::watch("scan call");
                    let a = (*s as usize * n) >> 16;
                    let b = (a + *span as usize).min(n.saturating_sub(1));
                    let start = stable_key(a);
                    let mut end = churn_key(b);
                    if span % 3 == 0 {
                        end = stable_key(b);
                    }
                    let before: Vec<(u32, u32)> = (a..=b).map(|c| (present[c].load(Ordering::SeqCst), epochs[c].load(Ordering::SeqCst))).collect();
                    let act0 = activity.load(Ordering::SeqCst);
                    let res = store.range_query(&start, &end, *limit as usize);
                    let act1 = activity.load(Ordering::SeqCst);
                    let after: Vec<(u32, u32)> = (a..=b).map(|c| (present[c].load(Ordering::SeqCst), epochs[c].load(Ordering::SeqCst))).collect();
                    count += 1;
                    if act1 != act0 || act0 % 2 == 1 {
                        overlapping += 1;
                    }
                    let pairs = match res {
                        Ok(p) => p,
                        Err(e) => {
                            failure = Some(("scan-error".into(), format!("range_query failed: {e:?}")));
                            break 'outer;
                        }
                    };
                    let what = format!("range_query({:?}, {:?}, {limit})", String::from_utf8_lossy(&start), String::from_utf8_lossy(&end));
                    if pairs.len() > *limit as usize {
                        failure = Some(("scan-over-limit".into(), format!("{what} returned {} results", pairs.len())));
                        break 'outer;
                    }
                    let mut prev: Option<&Vec<u8>> = None;
                    for (k, v) in &pairs {
                        if prev.is_some_and(|p| p >= k) {
                            failure = Some(("scan-not-ascending".into(), format!("{what}: keys not strictly ascending (duplicate or out of order) at {:?}", String::from_utf8_lossy(k))));
                            break 'outer;
                        }
                        prev = Some(k);
                        if *k < start || *k > end {
                            failure = Some(("scan-out-of-bounds".into(), format!("{what} returned {:?}", String::from_utf8_lossy(k))));
                            break 'outer;
                        }
                        let idx: usize = std::str::from_utf8(&k[1..5]).ok().and_then(|s| s.parse().ok()).unwrap_or(usize::MAX);
                        let churn = k.len() == 6;
                        let id = if churn { n + idx } else { idx };
                        match seq::stamp_check(v) {
                            Ok((kid, _)) if kid as usize == id => {}
                            other => {
                                failure = Some(("scan-foreign-value".into(), format!("{what}: key {:?} came with a value that is not a genuine value of that key: {other:?}", String::from_utf8_lossy(k))));
                                break 'outer;
                            }
                        }
                        if churn && idx >= a && idx <= b {
                            let (pb, eb) = before[idx - a];
                            let (pa, ea) = after[idx - a];
                            if idx % 2 == 0 && pb == 0 && pa == 0 && eb == ea {
                                failure = Some(("scan-returned-deleted-key".into(), format!("{what} returned {:?}, whose delete had completed before the scan began and which was not re-created until it ended", String::from_utf8_lossy(k))));
                                break 'outer;
                            }
                        }
                    }
                    // every stable key inside the returned window appears exactly once
                    let window_end: Vec<u8> = if pairs.len() < *limit as usize { end.clone() } else { pairs.last().map(|(k, _)| k.clone()).unwrap_or_default() };
                    if !pairs.is_empty() || pairs.len() < *limit as usize {
                        for i in a..=b {
                            let sk = stable_key(i);
                            if sk >= start && sk <= window_end && sk <= end {
                                let hits = pairs.iter().filter(|(k, _)| *k == sk).count();
                                if hits != 1 {
                                    failure = Some(("scan-missed-stable-key".into(), format!("{what}: stable key {:?} (present and unmodified for the whole query, inside the returned window ending at {:?}) appears {hits} times in {} results", String::from_utf8_lossy(&sk), String::from_utf8_lossy(&window_end), pairs.len())));
                                    break 'outer;
                                }
                            }
                        }
                    }
                }
                if writers_done.load(Ordering::SeqCst) as usize >= nw && round >= 1 {
                    break;
                }
            }
            (failure, count, overlapping)
        }));
    }
    for h in wh {
        let _ = h.join();
    }
    let mut failure = None;
    let mut scans = 0;
    let mut overlapping = 0;
    for h in sh {
        if let Ok((f, c, o)) = h.join() {
            scans += c;
            overlapping += o;
            if failure.is_none() {
                failure = f;
            }
        } else if failure.is_none() {
            failure = Some(("scanner-panicked".into(), "a scanning thread panicked inside the store".into()));
        }
    }
    sched::install(None);
    // quiescence: ordered and hashed indexes agree
    if failure.is_none() {
        let full = store.range_query(b"", &[0xff; 16], usize::MAX).unwrap_or_default();
        let snap = store.verif_snapshot();
        let mut by_get = Vec::new();
        for i in 0..n {
            for k in [stable_key(i), churn_key(i)] {
                if store.get(&k).is_ok() {
                    by_get.push(k);
                }
            }
        }
        by_get.sort();
        let range_keys: Vec<Vec<u8>> = full.iter().map(|(k, _)| k.clone()).collect();
        if range_keys != by_get {
            let phantom: Vec<String> = range_keys.iter().filter(|k| !by_get.contains(k)).map(|k| String::from_utf8_lossy(k).into_owned()).collect();
            let missing: Vec<String> = by_get.iter().filter(|k| !range_keys.contains(k)).map(|k| String::from_utf8_lossy(k).into_owned()).collect();
            failure = Some(("indexes-disagree-at-quiescence".into(), format!("after all threads finished the full range query and get() disagree: keys only in the range query {phantom:?}, keys only readable by get {missing:?}")));
        } else if store.len() != by_get.len() || snap.tree_keys.len() != snap.records.len() {
            failure = Some(("len-disagrees-at-quiescence".into(), format!("len()={} but {} keys are readable; ordered index holds {} keys, hash index {}", store.len(), by_get.len(), snap.tree_keys.len(), snap.records.len())));
        }
    }
    let out = ScanOutcome { failure, scans, scans_overlapping_churn: overlapping, sched_events: ctl.events() };
    env::reap(store, path);
    out
}

// ------------------------------------------------------------------------------------------
// C18: contention programs that must terminate (also the body of the C20 sanitizer runs)
// ------------------------------------------------------------------------------------------

#[derive(Clone, Debug, Serialize, Deserialize, PartialEq, Eq)]
pub enum DropMode {
    /// join everything, then drop
    Quiescent,
    /// the main thread drops its handle while workers still hold clones and keep calling
    WhileBusy,
    /// the TTL sweeper may hold the last strong reference
    SweeperLast,
}

#[derive(Clone, Debug, Serialize, Deserialize, PartialEq, Eq)]
pub struct TermProgram {
    pub visible_cpus: u8,
    /// tiny device (fills up: flush must report OutOfSpace and later succeed after deletes)
    pub data_blocks: u16,
    pub plain_io: bool,
    pub cache: bool,
    /// fail every device write/fsync from the k-th I/O call on (0 = healthy device)
    pub fail_from: u16,
    /// number of consecutive failing calls (0 = every call until healed)
    #[serde(default)]
    pub fail_count: u8,
    pub fail_heals_after_ms: u16,
    /// repeat the transient fault every this many I/O calls (0 = once)
    #[serde(default)]
    pub fail_period: u16,
    /// 0 = any write/fsync, 1 = data-area writes only, 2 = journal writes only, 3 = fsyncs only,
    /// 5 = record writes only (markers keep working), 6 = marker writes only
    #[serde(default)]
    pub fail_site: u8,
    pub writers: u8,
    pub writer_ops: u16,
    pub readers: u8,
    pub flushers: u8,
    pub sweeper: bool,
    pub keys: u8,
    pub value_blocks: u8,
    pub drop_mode: DropMode,
    pub schedule: Schedule,
    /// extra reader threads, all pinned to ONE cpu (so all but one of them are descheduled at
    /// arbitrary instructions of get()), reading the writers' keys in a loop
    #[serde(default)]
    pub pinned_readers: u8,
    /// writers sleep this long after every call (values get flushed and offloaded in between)
    #[serde(default)]
    pub writer_pause_us: u16,
}

/// Pins the calling thread to the last cpu the process may run on.
fn pin_current_thread_to_one_cpu() {
    unsafe {
        let mut allowed: libc::cpu_set_t = std::mem::zeroed();
        if libc::sched_getaffinity(0, std::mem::size_of::<libc::cpu_set_t>(), &mut allowed) != 0 {
            return;
        }
        let Some(cpu) = (0..libc::CPU_SETSIZE as usize).rev().find(|cpu| libc::CPU_ISSET(*cpu, &allowed)) else { return };
        let mut one: libc::cpu_set_t = std::mem::zeroed();
        libc::CPU_SET(cpu, &mut one);
        libc::sched_setaffinity(0, std::mem::size_of::<libc::cpu_set_t>(), &one);
    }
}

pub fn term_program_strategy() -> BoxedStrategy<TermProgram> {
    // one program in four: several flush() callers and writers on a roomy device whose record
    // writes fail 3-9 times in a row again and again (every batch attempt of some batch fails,
    // its clean-up runs while other callers are inside flush), markers / journal / metadata work
    let intermittent = term_program_general().prop_flat_map(|p| {
        (Just(p), prop_oneof![Just(3u8), Just(6u8), Just(9u8)], 8u16..60, 2u8..4, 2u8..4, prop_oneof![Just(5u8), Just(5u8), Just(1u8), Just(6u8)]).prop_map(|(mut p, count, period, flushers, writers, site)| {
            p.data_blocks = 500;
            p.fail_from = 8 + (period % 24);
            p.fail_count = count;
            p.fail_period = period.max(count as u16 + 2);
            p.fail_heals_after_ms = 0;
            p.fail_site = site;
            p.plain_io = true;
            p.flushers = flushers;
            p.writers = writers;
            p.writer_ops = p.writer_ops.max(80);
            p
        })
    });
    // one program in eight: a slow writer (values are flushed and offloaded between its calls)
    // next to 6-12 readers pinned to one cpu and 1-2 flush() callers: readers arrive at a record
    // at arbitrary moments of its retirement, every read ends within milliseconds, so every
    // flush() has to return
    let pinned = term_program_general().prop_flat_map(|p| {
        (Just(p), 6u8..13, 1u8..4, 60u16..200, 2000u16..12000, 1u8..3, 0u8..3).prop_map(|(mut p, pinned, keys, ops, pause, flushers, vb)| {
            p.data_blocks = 500;
            p.fail_from = 0;
            p.fail_count = 0;
            p.fail_period = 0;
            p.fail_heals_after_ms = 0;
            p.keys = keys;
            p.value_blocks = vb;
            p.writers = 1;
            p.writer_ops = ops;
            p.writer_pause_us = pause;
            p.readers = 0;
            p.flushers = flushers;
            p.pinned_readers = pinned;
            p.sweeper = false;
            p.cache = false;
            p.drop_mode = DropMode::Quiescent;
            p.schedule = Schedule::Free;
            p
        })
    });
    prop_oneof![6 => term_program_general(), 2 => intermittent, 1 => pinned].boxed()
}

fn term_program_general() -> BoxedStrategy<TermProgram> {
    (
        (prop_oneof![Just(2u8), Just(4u8), Just(8u8), Just(16u8)], prop_oneof![3 => 20u16..60, 1 => Just(500u16)], any::<bool>(), any::<bool>()),
        (prop_oneof![3 => Just(0u16), 3 => 5u16..160], prop_oneof![Just(0u8), Just(1u8), Just(3u8), Just(3u8), Just(4u8), Just(9u8)], prop_oneof![Just(0u16), Just(30), Just(200)], prop_oneof![1 => Just(0u16), 2 => 7u16..90], prop_oneof![2 => Just(0u8), 3 => Just(1u8), 1 => Just(2u8), 1 => Just(3u8)]),
        (1u8..4, 20u16..200, 0u8..3, 1u8..4, proptest::bool::weighted(0.3)),
        (2u8..12, 0u8..4),
        prop_oneof![3 => Just(DropMode::Quiescent), 2 => Just(DropMode::WhileBusy), 1 => Just(DropMode::SweeperLast)],
        sched::schedule_strategy(),
    )
        .prop_map(|((visible_cpus, data_blocks, plain_io, cache), (fail_from, fail_count, fail_heals_after_ms, fail_period, fail_site), (writers, writer_ops, readers, flushers, sweeper), (keys, value_blocks), drop_mode, schedule)| TermProgram {
            visible_cpus,
            data_blocks,
            plain_io: plain_io || fail_from > 0,
            cache,
            fail_from,
            fail_count,
            fail_heals_after_ms,
            fail_period: if fail_count == 0 { 0 } else { fail_period },
            fail_site,
            writers,
            writer_ops,
            readers,
            flushers,
            sweeper: sweeper || drop_mode == DropMode::SweeperLast,
            keys,
            value_blocks,
            drop_mode,
            schedule,
            pinned_readers: 0,
            writer_pause_us: 0,
        })
        .boxed()
}

pub struct TermOutcome {
    pub calls: u64,
    pub flush_errors: u64,
    pub out_of_space: u64,
    pub threads_inside: u64,
    pub faults_injected: u64,
    pub panicked: bool,
}

/// Runs to completion or is killed by the watchdog (the caller journals the program first).
pub fn run_term_program(p: &TermProgram) -> TermOutcome {
    feoxdb::verif::set_thread_clock(None);
    let cfg = Config { persistent: true, version: 3, cache: p.cache, ttl: true, dev: DevSize::Tiny(p.data_blocks), max_memory: None, plain_io: p.plain_io, legacy_plain_meta: false, visible_cpus: p.visible_cpus };
    let path = env::fresh_path("term");
    std::fs::File::create(&path).expect("create");
    let dev = crate::trace::register(&path, false);
    let store = match seq::open_store(&cfg, Some(&path)) {
        Ok(s) => Arc::new(s),
        Err(_) => return TermOutcome { calls: 0, flush_errors: 0, out_of_space: 0, threads_inside: 0, faults_injected: 0, panicked: false },
    };
    if p.sweeper {
        store.start_ttl_sweeper(Some(feoxdb::core::ttl_sweep::TtlConfig { sample_size: 20, expiry_threshold: 0.1, max_iterations: 8, max_time_per_run: std::time::Duration::from_millis(2), sleep_interval: std::time::Duration::from_millis(2), enabled: true }));
    }
    if p.fail_from > 0 {
        let base = dev.lock().unwrap().io_calls;
        dev.lock().unwrap().plan = Some(crate::trace::FaultPlan { from: if p.fail_site == 0 { base + p.fail_from as usize } else { (p.fail_from / 8) as usize }, count: if p.fail_count == 0 { usize::MAX } else { p.fail_count as usize }, mode: if p.fail_from % 2 == 0 { crate::trace::FaultMode::Before } else { crate::trace::FaultMode::After }, errno: libc::EIO, second: None, period: p.fail_period as usize, site: match p.fail_site { 1 => Some("data-write"), 2 => Some("journal-write"), 3 => Some("fsync"), 5 => Some("record-write"), 6 => Some("marker-write"), _ => None } });
    }
    let ctl = Controller::new(p.schedule.clone());
    sched::install(Some(ctl.clone()));
    let calls = Arc::new(AtomicU64::new(0));
    let flush_errors = Arc::new(AtomicU64::new(0));
    let oos = Arc::new(AtomicU64::new(0));
    let inside = Arc::new(AtomicU64::new(0));
    let max_inside = Arc::new(AtomicU64::new(0));
    let stop = Arc::new(AtomicBool::new(false));
    let nthreads = p.writers as usize + p.readers as usize + p.flushers as usize + p.pinned_readers as usize;
    let barrier = Arc::new(Barrier::new(nthreads + 1));
    let key = |i: usize| format!("tk{:03}", i).into_bytes();
    let mut handles = Vec::new();
    let enter = |inside: &AtomicU64, max_inside: &AtomicU64| {
        let n = inside.fetch_add(1, Ordering::SeqCst) + 1;
        max_inside.fetch_max(n, Ordering::SeqCst);
    };
    for w in 0..p.writers as usize {
        let (store, barrier, calls, inside, max_inside) = (store.clone(), barrier.clone(), calls.clone(), inside.clone(), max_inside.clone());
        let (nkeys, ops, vb, sweeper) = (p.keys as usize, p.writer_ops as usize, p.value_blocks as usize, p.sweeper);
        let pause = p.writer_pause_us as u64;
        handles.push(std::thread::spawn(move || {
            barrier.wait();
            for i in 0..ops {
                if pause > 0 {
                    std::thread::sleep(std::time::Duration::from_micros(pause));
                }
                let k = key((i * 7 + w * 3) % nkeys);
                let _g = env::watch("C18 writer call");
                enter(&inside, &max_inside);
                if sweeper && i % 41 == 40 {
                    // a sweeper that is already running is started again with another configuration
                    // (the old one has to stop and be joined while the store is alive)
                    let _g2 = env::watch("C18 restart of the TTL sweeper");
                    store.start_ttl_sweeper(Some(feoxdb::core::ttl_sweep::TtlConfig { sample_size: 10 + i % 30, expiry_threshold: 0.2, max_iterations: 4, max_time_per_run: std::time::Duration::from_millis(1), sleep_interval: std::time::Duration::from_millis(1 + (i % 3) as u64), enabled: true }));
                }
                match (i + w) % 9 {
                    7 => {
                        let _ = store.update_ttl(&k, 3600);
                    }
                    8 => {
                        let _ = if i % 2 == 0 { store.persist(&k) } else { store.update_ttl(&k, 7200) };
                    }
                    0 | 1 | 2 => {
                        let mut v = vec![0u8; if vb == 0 { 60 } else { vb * 4096 - 100 + (i % 50) }];
                        seq::stamp_fill(&mut v, (i % nkeys) as u16, i as u32);
                        if sweeper && i % 5 == 0 {
                            let _ = store.insert_with_ttl(&k, &v, 1);
                        } else {
                            let _ = store.insert(&k, &v);
                        }
                    }
                    3 => {
                        let _ = store.delete(&k);
                    }
                    4 => {
                        let _ = store.atomic_increment(format!("tc{}", i % 3).as_bytes(), 1);
                    }
                    5 => {
                        let _ = store.insert_bytes(&k, bytes::Bytes::from(vec![b'z'; 100 + i % 3000]));
                    }
                    _ => {
                        let _ = store.compare_and_swap(&k, b"nope", b"x");
                    }
                }
                inside.fetch_sub(1, Ordering::SeqCst);
                calls.fetch_add(1, Ordering::Relaxed);
            }
        }));
    }
    for r in 0..p.readers as usize {
        let (store, barrier, calls, inside, max_inside, stop) = (store.clone(), barrier.clone(), calls.clone(), inside.clone(), max_inside.clone(), stop.clone());
        let nkeys = p.keys as usize;
        handles.push(std::thread::spawn(move || {
            barrier.wait();
            let mut i = r;
            while !stop.load(Ordering::Acquire) && i < 200_000 {
                let _g = env::watch("C18 reader call");
                enter(&inside, &max_inside);
                if i % 9 == 0 {
                    let _ = store.range_query(b"tk", b"tk~", 50);
                } else {
                    let _ = store.get(&key(i % nkeys));
                }
                inside.fetch_sub(1, Ordering::SeqCst);
                calls.fetch_add(1, Ordering::Relaxed);
                i += 1;
            }
        }));
    }
    for _ in 0..p.flushers as usize {
        let (store, barrier, calls, inside, max_inside, stop, flush_errors, oos) = (store.clone(), barrier.clone(), calls.clone(), inside.clone(), max_inside.clone(), stop.clone(), flush_errors.clone(), oos.clone());
        handles.push(std::thread::spawn(move || {
            barrier.wait();
            let mut n = 0;
            while !stop.load(Ordering::Acquire) && n < 5_000 {
                let _g = env::watch("C18 flush call");
                enter(&inside, &max_inside);
                match store.flush() {
                    Ok(()) => {}
                    Err(feoxdb::FeoxError::OutOfSpace) => {
                        oos.fetch_add(1, Ordering::Relaxed);
                    }
                    Err(_) => {
                        flush_errors.fetch_add(1, Ordering::Relaxed);
                    }
                }
                inside.fetch_sub(1, Ordering::SeqCst);
                calls.fetch_add(1, Ordering::Relaxed);
                n += 1;
                std::thread::yield_now();
            }
        }));
    }
    for r in 0..p.pinned_readers as usize {
        let (store, barrier, calls, inside, max_inside, stop) = (store.clone(), barrier.clone(), calls.clone(), inside.clone(), max_inside.clone(), stop.clone());
        let nkeys = p.keys as usize;
        handles.push(std::thread::spawn(move || {
            pin_current_thread_to_one_cpu();
            barrier.wait();
            let mut i = r;
            while !stop.load(Ordering::Acquire) && i < 4_000_000 {
                let _g = env::watch("C18 pinned reader call");
                enter(&inside, &max_inside);
                let _ = store.get(&key(i % nkeys));
                inside.fetch_sub(1, Ordering::SeqCst);
                calls.fetch_add(1, Ordering::Relaxed);
                i += 1;
            }
        }));
    }
    barrier.wait();
    let mut main_handle = Some(store);
    if p.drop_mode == DropMode::WhileBusy {
        // give up the main handle while the workers still run: the last clone drops the store
        std::thread::sleep(std::time::Duration::from_millis(2));
        let _g = env::watch("C18 drop of main handle while busy");
        drop(main_handle.take());
    }
    if p.fail_from > 0 && p.fail_heals_after_ms > 0 {
        std::thread::sleep(std::time::Duration::from_millis(p.fail_heals_after_ms as u64));
        dev.lock().unwrap().plan = None;
    }
    // writers finish on their own; then readers and flushers are told to stop
    let mut panicked = false;
    let nw = p.writers as usize;
    let mut rest = Vec::new();
    for (i, h) in handles.into_iter().enumerate() {
        if i < nw {
            let _g = env::watch("C18 join writer");
            panicked |= h.join().is_err();
        } else {
            rest.push(h);
        }
    }
    // a full device must accept a flush again once keys are deleted
    if let Some(s) = main_handle.as_ref() {
        if oos.load(Ordering::Relaxed) > 0 && p.fail_from == 0 {
            for i in 0..p.keys as usize {
                let _ = s.delete(&key(i));
            }
        }
    }
    stop.store(true, Ordering::Release);
    for h in rest {
        let _g = env::watch("C18 join reader/flusher");
        panicked |= h.join().is_err();
    }
    sched::install(None);
    let faults = dev.lock().unwrap().faults_injected as u64;
    if let Some(s) = main_handle.take() {
        let _g = env::watch("C18 final flush");
        let _ = s.flush();
        drop(_g);
        let _g = env::watch("C18 drop");
        match p.drop_mode {
            DropMode::SweeperLast => {
                // let the sweeper thread be the one that releases the last reference now and then
                let weak = Arc::downgrade(&s);
                drop(s);
                let t = std::time::Instant::now();
                while weak.upgrade().is_some() && t.elapsed() < std::time::Duration::from_secs(30) {
                    std::thread::sleep(std::time::Duration::from_millis(1));
                }
            }
            _ => drop(s),
        }
    }
    crate::trace::unregister(&path);
    let _ = std::fs::remove_file(&path);
    TermOutcome { calls: calls.load(Ordering::Relaxed), flush_errors: flush_errors.load(Ordering::Relaxed), out_of_space: oos.load(Ordering::Relaxed), threads_inside: max_inside.load(Ordering::Relaxed), faults_injected: faults, panicked }
}

// ------------------------------------------------------------------------------------------
// C13 (concurrent part): admitted writes never push usage above the limit
// ------------------------------------------------------------------------------------------

#[derive(Clone, Debug, Serialize, Deserialize, PartialEq, Eq)]
pub struct MemProgram {
    pub limit_kb: u16,
    pub threads: u8,
    /// per thread ops: (key scaled, size class, kind 0 insert / 1 delete / 2 cas-grow / 3 incr / 4 insert_bytes)
    pub ops: Vec<Vec<(u8, u16, u8)>>,
    pub shared_keys: u8,
    pub schedule: Schedule,
}

pub fn mem_program_strategy() -> BoxedStrategy<MemProgram> {
    (prop_oneof![5 => 8u16..200, 1 => Just(0u16)], 2u8..9, 0u8..6, sched::schedule_strategy())
        .prop_flat_map(|(limit_kb, threads, shared_keys, schedule)| {
            let op = (any::<u8>(), prop_oneof![3 => 10u16..400, 2 => 400u16..6000, 1 => 6000u16..40000], 0u8..5);
            (Just(limit_kb), Just(threads), proptest::collection::vec(proptest::collection::vec(op, 20..150), threads as usize), Just(shared_keys), Just(schedule))
        })
        .prop_map(|(limit_kb, threads, ops, shared_keys, schedule)| MemProgram { limit_kb, threads, ops, shared_keys, schedule })
        .boxed()
}

pub struct MemOutcome {
    pub failure: Option<(String, String)>,
    pub samples: u64,
    pub refused: u64,
    pub admitted: u64,
    pub peak: usize,
    pub near_limit_admissions: u64,
}

pub fn run_mem_program(p: &MemProgram) -> MemOutcome {
    feoxdb::verif::set_thread_clock(None);
    // limit_kb == 0: a store built with no_memory_limit() (accounting must stay exact there too)
    let limit = if p.limit_kb == 0 { usize::MAX / 2 } else { p.limit_kb as usize * 1024 };
    let cfg = Config { persistent: false, version: 3, cache: false, ttl: false, dev: DevSize::Normal, max_memory: (p.limit_kb != 0).then_some(limit), plain_io: true, legacy_plain_meta: false, visible_cpus: 0 };
    let store = match seq::open_store(&cfg, None) {
        Ok(s) => Arc::new(s),
        Err(e) => return MemOutcome { failure: Some(("open-failed".into(), format!("{e:?}"))), samples: 0, refused: 0, admitted: 0, peak: 0, near_limit_admissions: 0 },
    };
    let ctl = Controller::new(p.schedule.clone());
    sched::install(Some(ctl.clone()));
    let stop = Arc::new(AtomicBool::new(false));
    let peak = Arc::new(AtomicU64::new(0));
    let samples = Arc::new(AtomicU64::new(0));
    let over = Arc::new(std::sync::Mutex::new(None::<usize>));
    let monitors: Vec<_> = (0..2)
        .map(|_| {
            let (store, stop, peak, samples, over) = (store.clone(), stop.clone(), peak.clone(), samples.clone(), over.clone());
            std::thread::spawn(move || {
                while !stop.load(Ordering::Acquire) {
                    let u = store.memory_usage();
                    samples.fetch_add(1, Ordering::Relaxed);
                    peak.fetch_max(u as u64, Ordering::Relaxed);
                    if u > limit {
                        over.lock().unwrap().get_or_insert(u);
                    }
                }
            })
        })
        .collect();
    let barrier = Arc::new(Barrier::new(p.threads as usize));
    let refused = Arc::new(AtomicU64::new(0));
    let admitted = Arc::new(AtomicU64::new(0));
    let near = Arc::new(AtomicU64::new(0));
    let rec = seq::rec_overhead();
    let mut hs = Vec::new();
    for (t, ops) in p.ops.iter().enumerate() {
        let (store, barrier, refused, admitted, near) = (store.clone(), barrier.clone(), refused.clone(), admitted.clone(), near.clone());
        let ops = ops.clone();
        let shared = p.shared_keys as usize;
        hs.push(std::thread::spawn(move || {
            // owned keys: contents known exactly to the owner
            let mut owned: std::collections::HashMap<Vec<u8>, Vec<u8>> = std::collections::HashMap::new();
            let mut err: Option<(String, String)> = None;
            barrier.wait();
            for (i, (kx, size, kind)) in ops.iter().enumerate() {
                let _g = env::watch("mem call");
                let use_shared = shared > 0 && kx % 3 == 0;
                let key = if use_shared { format!("shared-{}", *kx as usize % shared).into_bytes() } else { format!("own-{t}-{}", kx % 12).into_bytes() };
                let mut v = vec![0u8; *size as usize];
                seq::stamp_fill(&mut v, t as u16, i as u32);
                let before = store.memory_usage();
                match kind {
                    1 => {
                        let r = store.delete(&key);
                        if !use_shared {
                            match (r, owned.remove(&key)) {
                                (Ok(()), Some(_)) | (Err(feoxdb::FeoxError::KeyNotFound), None) => {}
                                (r, had) => err = err.or(Some(("owned-delete-wrong".into(), format!("delete of an owned key returned {r:?} while the owner knows it was {}", if had.is_some() { "present" } else { "absent" })))),
                            }
                        }
                    }
                    3 => {
                        let k2 = format!("ctr-{t}").into_bytes();
                        let _ = store.atomic_increment(&k2, 1);
                    }
                    _ => {
                        let r = match kind {
                            4 => store.insert_bytes(&key, bytes::Bytes::from(v.clone())),
                            2 => match owned.get(&key) {
                                Some(cur) if !use_shared => store.compare_and_swap(&key, cur, &v).map(|_| false),
                                _ => store.insert(&key, &v),
                            },
                            _ => store.insert(&key, &v),
                        };
                        match r {
                            Ok(_) => {
                                admitted.fetch_add(1, Ordering::Relaxed);
                                if before + rec + key.len() + v.len() + 2048 > limit {
                                    near.fetch_add(1, Ordering::Relaxed);
                                }
                                if !use_shared {
                                    owned.insert(key.clone(), v);
                                }
                            }
                            Err(feoxdb::FeoxError::OutOfMemory) => {
                                refused.fetch_add(1, Ordering::Relaxed);
                                // a refused write changes nothing: the owner's key still reads as before
                                if !use_shared {
                                    let got = store.get(&key).ok();
                                    if got.as_ref() != owned.get(&key) {
                                        err = err.or(Some(("refused-write-changed-contents".into(), format!("a write refused with OutOfMemory changed the owner's key {}: now {:?} bytes, before {:?} bytes", String::from_utf8_lossy(&key), got.map(|g| g.len()), owned.get(&key).map(|g| g.len())))));
                                    }
                                }
                            }
                            // concurrent automatic writers of a shared key may be refused conservatively (C07)
                            Err(feoxdb::FeoxError::OlderTimestamp) if use_shared => {}
                            Err(e) => err = err.or(Some(("unexpected-error".into(), format!("write failed with {e:?}")))),
                        }
                    }
                }
            }
            err
        }));
    }
    let mut failure = None;
    for h in hs {
        match h.join() {
            Ok(Some(e)) => {
                failure.get_or_insert(e);
            }
            Ok(None) => {}
            Err(_) => {
                failure.get_or_insert(("writer-panicked".into(), "a writer thread panicked".into()));
            }
        }
    }
    stop.store(true, Ordering::Release);
    for m in monitors {
        let _ = m.join();
    }
    sched::install(None);
    if failure.is_none() {
        if let Some(u) = *over.lock().unwrap() {
            failure = Some(("usage-above-limit".into(), format!("memory_usage() was sampled at {u} bytes while the configured limit is {limit}")));
        }
    }
    if failure.is_none() {
        let snap = store.verif_snapshot();
        let want: usize = snap.records.iter().map(|r| rec + r.key.len() + r.value_len).sum();
        if store.memory_usage() != want || store.len() != snap.records.len() {
            failure = Some(("accounting-drift-at-quiescence".into(), format!("after all writers finished memory_usage()={} len()={} but the {} stored records sum to {want}", store.memory_usage(), store.len(), snap.records.len())));
        }
    }
    let out = MemOutcome { failure, samples: samples.load(Ordering::Relaxed), refused: refused.load(Ordering::Relaxed), admitted: admitted.load(Ordering::Relaxed), peak: peak.load(Ordering::Relaxed) as usize, near_limit_admissions: near.load(Ordering::Relaxed) };
    drop(store);
    out
}

// ------------------------------------------------------------------------------------------
// C11 (concurrent part): the sweeper racing writers that renew / replace / persist keys
// ------------------------------------------------------------------------------------------

#[derive(Clone, Debug, Serialize, Deserialize, PartialEq, Eq)]
pub struct SweepProgram {
    pub persistent: bool,
    pub sample_size: u8,
    pub keys_per_writer: u8,
    pub writers: u8,
    /// per writer: sequence of (key scaled, action 0 renew(update_ttl) / 1 persist / 2 replace without ttl / 3 replace with long ttl / 4 leave / 5 short ttl again)
    pub actions: Vec<Vec<(u8, u8)>>,
    pub schedule: Schedule,
}

pub fn sweep_program_strategy() -> BoxedStrategy<SweepProgram> {
    (any::<bool>(), prop_oneof![Just(1u8), Just(3u8), Just(20u8), Just(100u8)], 3u8..20, 1u8..4, sched::schedule_strategy())
        .prop_flat_map(|(persistent, sample_size, keys_per_writer, writers, schedule)| {
            (Just(persistent), Just(sample_size), Just(keys_per_writer), Just(writers), proptest::collection::vec(proptest::collection::vec((any::<u8>(), 0u8..6), 10..80), writers as usize), Just(schedule))
        })
        .prop_map(|(persistent, sample_size, keys_per_writer, writers, actions, schedule)| SweepProgram { persistent, sample_size, keys_per_writer, writers, actions, schedule })
        .boxed()
}

pub struct SweepOutcome {
    pub failure: Option<(String, String)>,
    pub swept: u64,
    pub renewals_ok: u64,
    pub renewals_too_late: u64,
    pub reads: u64,
}

pub fn run_sweep_program(p: &SweepProgram) -> SweepOutcome {
    use std::sync::atomic::AtomicU8;
    const T: u64 = 1_800_000_000_000_000_000;
    const SEC: u64 = 1_000_000_000;
    feoxdb::verif::set_thread_clock(None);
    feoxdb::verif::set_global_clock(Some(T));
    let mut cfg = conc_config(p.persistent, false, true, 400);
    cfg.ttl = true;
    let path = p.persistent.then(|| env::fresh_path("sweep"));
    let store = match seq::open_store(&cfg, path.as_deref()) {
        Ok(s) => Arc::new(s),
        Err(e) => {
            feoxdb::verif::set_global_clock(None);
            return SweepOutcome { failure: Some(("open-failed".into(), format!("{e:?}"))), swept: 0, renewals_ok: 0, renewals_too_late: 0, reads: 0 };
        }
    };
    let nk = p.keys_per_writer as usize;
    let nw = p.writers as usize;
    let key = |w: usize, k: usize| format!("sw-{w}-{k:02}").into_bytes();
    let val = |w: usize, k: usize, g: u32| {
        let mut v = vec![0u8; 30 + k];
        seq::stamp_fill(&mut v, (w * 100 + k) as u16, g);
        v
    };
    // phase 1: every key gets a 1 s TTL at time T
    for w in 0..nw {
        for k in 0..nk {
            let _ = store.insert_with_ttl(&key(w, k), &val(w, k, 1), 1);
        }
    }
    if p.persistent {
        let _ = store.flush();
    }
    // must_stay[w][k]: 0 unknown, 1 = a renewal/replacement completed: the key must be readable from now on
    let must_stay: Arc<Vec<AtomicU8>> = Arc::new((0..nw * nk).map(|_| AtomicU8::new(0)).collect());
    let gens: Arc<Vec<AtomicU64>> = Arc::new((0..nw * nk).map(|_| AtomicU64::new(1)).collect());
    // phase 2: time jumps past the expiry; the sweeper starts; writers race it
    feoxdb::verif::set_global_clock(Some(T + 2 * SEC));
    let ctl = Controller::new(p.schedule.clone());
    sched::install(Some(ctl.clone()));
    store.start_ttl_sweeper(Some(feoxdb::core::ttl_sweep::TtlConfig { sample_size: p.sample_size as usize, expiry_threshold: 0.0, max_iterations: 16, max_time_per_run: std::time::Duration::from_millis(2), sleep_interval: std::time::Duration::from_millis(1), enabled: true }));
    let barrier = Arc::new(Barrier::new(nw + 1));
    let done = Arc::new(AtomicBool::new(false));
    let ok = Arc::new(AtomicU64::new(0));
    let late = Arc::new(AtomicU64::new(0));
    let mut hs = Vec::new();
    for w in 0..nw {
        let (store, barrier, must_stay, gens, ok, late) = (store.clone(), barrier.clone(), must_stay.clone(), gens.clone(), ok.clone(), late.clone());
        let actions = p.actions[w].clone();
        hs.push(std::thread::spawn(move || {
            let mut err: Option<(String, String)> = None;
            barrier.wait();
            for (kx, a) in &actions {
                let k = (*kx as usize * nk) >> 8;
                let slot = w * nk + k;
                let kb = key(w, k);
                let _g = env::watch("sweep writer call");
                let g = gens[slot].load(Ordering::SeqCst) as u32;
                match a {
                    0 | 1 => {
                        // TTL-only renewal: succeeds only if the generation is still unexpired
                        let r = if *a == 0 { store.update_ttl(&kb, 3600) } else { store.persist(&kb) };
                        match r {
                            Ok(()) => {
                                if must_stay[slot].load(Ordering::SeqCst) == 0 {
                                    err = err.or(Some(("renewed-an-expired-key".into(), format!("update_ttl/persist succeeded on {} although its only generation had expired 1 s earlier", String::from_utf8_lossy(&kb)))));
                                }
                                ok.fetch_add(1, Ordering::Relaxed);
                            }
                            Err(feoxdb::FeoxError::KeyNotFound) => {
                                if must_stay[slot].load(Ordering::SeqCst) == 1 {
                                    err = err.or(Some(("unexpired-key-missing".into(), format!("update_ttl/persist on {} returned KeyNotFound although its latest generation is unexpired", String::from_utf8_lossy(&kb)))));
                                }
                                late.fetch_add(1, Ordering::Relaxed);
                            }
                            Err(e) => err = err.or(Some(("unexpected-error".into(), format!("{e:?}")))),
                        }
                    }
                    2 | 3 => {
                        let v = val(w, k, g + 1);
                        // mark the transition before the call: a reader must never see "expired only"
                        // on both sides of a read that overlapped this replacement
                        let prev = must_stay[slot].swap(2, Ordering::SeqCst);
                        let r = if *a == 2 { store.insert(&kb, &v).map(|_| ()) } else { store.insert_with_ttl(&kb, &v, 3600).map(|_| ()) };
                        if r.is_ok() {
                            gens[slot].store(g as u64 + 1, Ordering::SeqCst);
                            must_stay[slot].store(1, Ordering::SeqCst);
                        } else {
                            must_stay[slot].store(prev, Ordering::SeqCst);
                            // a replacement racing the sweeper's removal of the expired generation may
                            // be refused conservatively (the removal acts as a delete at the sweeper's now)
                            if !(matches!(r, Err(feoxdb::FeoxError::OlderTimestamp)) && prev != 1) {
                                err = err.or(Some(("unexpected-error".into(), format!("replace failed: {r:?}"))));
                            }
                        }
                    }
                    5 => {
                        // short TTL again, already expired at the current time: the key may vanish again
                        let prev = must_stay[slot].swap(2, Ordering::SeqCst); // 2 = in transition
                        let v = val(w, k, g + 1);
                        // automatic timestamp (= the frozen virtual now), TTL 0 is "no expiry", so use
                        // an explicit expiry in the past through a 1 s TTL on a timestamp 3 s back
                        // only when the key is absent or older; otherwise the call is refused
                        let now = store.get_timestamp_pub();
                        match store.insert_with_ttl_and_timestamp(&kb, &v, 1, Some(now - 3 * SEC + (g as u64 + 2))) {
                            Ok(_) => {
                                gens[slot].store(g as u64 + 1, Ordering::SeqCst);
                                must_stay[slot].store(0, Ordering::SeqCst);
                            }
                            Err(_) => must_stay[slot].store(prev, Ordering::SeqCst),
                        }
                    }
                    _ => {}
                }
            }
            err
        }));
    }
    // reader: keys that must stay are always readable with their current generation
    let reader = {
        let (store, barrier, must_stay, gens, done) = (store.clone(), barrier.clone(), must_stay.clone(), gens.clone(), done.clone());
        std::thread::spawn(move || {
            let mut err: Option<(String, String)> = None;
            let mut reads = 0u64;
            barrier.wait();
            while !done.load(Ordering::Acquire) && err.is_none() {
                for w in 0..nw {
                    for k in 0..nk {
                        let slot = w * nk + k;
                        let kb = key(w, k);
                        let stay_before = must_stay[slot].load(Ordering::SeqCst);
                        let g0 = gens[slot].load(Ordering::SeqCst);
                        let r = store.get(&kb);
                        let g1 = gens[slot].load(Ordering::SeqCst);
                        let stay_after = must_stay[slot].load(Ordering::SeqCst);
                        reads += 1;
                        match r {
                            Ok(v) => {
                                if stay_before == 0 && stay_after == 0 && g0 == g1 {
                                    // the only generation is expired (expiry T+1s or earlier, now >= T+2s)
                                    err = Some(("expired-value-returned".into(), format!("get({}) returned a value whose expiry instant passed at least 1 s of virtual time ago", String::from_utf8_lossy(&kb))));
                                }
                                if let Ok((_, gen)) = seq::stamp_check(&v) {
                                    if (gen as u64) < g0.saturating_sub(0) && g0 == g1 && (gen as u64) != g0 {
                                        err = err.or(Some(("older-generation-returned".into(), format!("get({}) returned generation {gen} while the current one is {g0}", String::from_utf8_lossy(&kb)))));
                                    }
                                } else {
                                    err = err.or(Some(("foreign-bytes".into(), format!("get({}) returned bytes that are no complete generation", String::from_utf8_lossy(&kb)))));
                                }
                            }
                            Err(feoxdb::FeoxError::KeyNotFound) => {
                                if stay_before == 1 && stay_after == 1 {
                                    err = Some(("unexpired-key-missing".into(), format!("get({}) returned KeyNotFound although a renewal/replacement with an unexpired (or no) expiry had completed before the read began", String::from_utf8_lossy(&kb))));
                                }
                            }
                            Err(feoxdb::FeoxError::StaleExtent) => {}
                            Err(e) => err = Some(("read-error".into(), format!("{e:?}"))),
                        }
                    }
                }
            }
            (err, reads)
        })
    };
    let mut failure = None;
    for h in hs {
        match h.join() {
            Ok(Some(e)) => {
                failure.get_or_insert(e);
            }
            Ok(None) => {}
            Err(_) => {
                failure.get_or_insert(("writer-panicked".into(), "a writer thread panicked".into()));
            }
        }
    }
    // let the sweeper run a little longer over the final state
    std::thread::sleep(std::time::Duration::from_millis(8));
    done.store(true, Ordering::Release);
    let mut reads = 0;
    if let Ok((e, r)) = reader.join() {
        reads = r;
        if let Some(e) = e {
            failure.get_or_insert(e);
        }
    }
    sched::install(None);
    // final: every key that must stay is present with its current generation; len() == readable keys
    if failure.is_none() {
        for w in 0..nw {
            for k in 0..nk {
                let slot = w * nk + k;
                if must_stay[slot].load(Ordering::SeqCst) == 1 {
                    match store.get(&key(w, k)) {
                        Ok(v) if seq::stamp_check(&v).is_ok_and(|(_, g)| g as u64 == gens[slot].load(Ordering::SeqCst)) => {}
                        other => {
                            failure = Some(("unexpired-key-missing".into(), format!("at the end {} should hold generation {} but get returned {:?}", String::from_utf8_lossy(&key(w, k)), gens[slot].load(Ordering::SeqCst), other.map(|v| v.len()))));
                        }
                    }
                }
            }
        }
    }
    let swept = store.stats().ttl_expired_active;
    let out = SweepOutcome { failure, swept, renewals_ok: ok.load(Ordering::Relaxed), renewals_too_late: late.load(Ordering::Relaxed), reads };
    env::reap(store, path);
    // the reaper drops the store (and stops the sweeper) on another thread; the global clock stays
    // set until the next program installs its own
    out
}

// ------------------------------------------------------------------------------------------
// C07M: explicit future timestamps racing automatic ones in the same clock shard
// ------------------------------------------------------------------------------------------

/// Rounds on fresh keys: the main thread publishes an explicit timestamp ahead of the wall clock
/// while helper threads draw automatic timestamps (on the same key and on pools of other keys that
/// collide into the same one of the 64 clock shards). After every round all threads are parked
/// (quiescence) and the main thread issues an automatic call on the key: real-time order makes it
/// the newest write, so it must be accepted and stamped above the explicit timestamp.
#[derive(Clone, Debug, Serialize, Deserialize, PartialEq, Eq)]
pub struct ClockProgram {
    pub persistent: bool,
    pub helpers: u8,
    /// keys per helper pool
    pub pool: u16,
    /// helper 0 writes the round's own key with an automatic timestamp
    pub same_key_helper: bool,
    pub rounds: u16,
    /// the explicit timestamps start this many seconds ahead of the wall clock
    pub ahead_s: u32,
    pub skew_seed: u64,
    /// the quiescent automatic call: 0 insert, 1 delete, 2 insert_with_ttl? (unused when TTL off), 3 compare-and-swap
    pub follow: u8,
    /// helper writes per round
    pub burst: u8,
}

pub fn clock_program_strategy() -> BoxedStrategy<ClockProgram> {
    (proptest::bool::weighted(0.25), 1u8..4, prop_oneof![Just(1u16), 4u16..40, 40u16..300], proptest::bool::weighted(0.6), 60u16..400, prop_oneof![Just(1u32), Just(3600u32), Just(86_400u32 * 10)], any::<u64>(), 0u8..4, 1u8..6)
        .prop_map(|(persistent, helpers, pool, same_key_helper, rounds, ahead_s, skew_seed, follow, burst)| ClockProgram { persistent, helpers, pool, same_key_helper, rounds, ahead_s, skew_seed, follow, burst })
        .boxed()
}

#[derive(Default)]
pub struct ClockOut {
    pub failure: Option<(String, String)>,
    pub rounds: u64,
    pub explicit_accepted: u64,
    pub helper_writes: u64,
    pub same_key_auto_accepted: u64,
}

pub fn run_clock_program(p: &ClockProgram) -> ClockOut {
    use std::sync::atomic::{AtomicBool, AtomicU64, Ordering};
    use std::sync::{Arc, Barrier};
    let mut out = ClockOut::default();
    feoxdb::verif::set_global_clock(None);
    feoxdb::verif::set_thread_clock(None);
    sched::install(None);
    let path = p.persistent.then(|| env::fresh_path("clock"));
    let cfg = Config { persistent: p.persistent, version: 3, cache: false, ttl: false, dev: DevSize::Large, max_memory: None, plain_io: true, legacy_plain_meta: false, visible_cpus: 4 };
    let store = match seq::open_store(&cfg, path.as_deref()) {
        Ok(s) => Arc::new(s),
        Err(e) => {
            out.failure = Some(("open-failed".into(), format!("{e:?}")));
            return out;
        }
    };
    let helpers = p.helpers.max(1) as usize;
    let start = Arc::new(Barrier::new(helpers + 1));
    let end = Arc::new(Barrier::new(helpers + 1));
    let stop = Arc::new(AtomicBool::new(false));
    let round_no = Arc::new(AtomicU64::new(0));
    let writes = Arc::new(AtomicU64::new(0));
    let same_ok = Arc::new(AtomicU64::new(0));
    let mut handles = Vec::new();
    for h in 0..helpers {
        let (store, start, end, stop, round_no, writes, same_ok) = (store.clone(), start.clone(), end.clone(), stop.clone(), round_no.clone(), writes.clone(), same_ok.clone());
        let (pool, burst, same, seed) = (p.pool.max(1) as u64, p.burst.max(1) as u64, p.same_key_helper && h == 0, p.skew_seed ^ (h as u64 + 1).wrapping_mul(0x9E37_79B9_7F4A_7C15));
        handles.push(std::thread::spawn(move || {
            let mut x = seed | 1;
            loop {
                start.wait();
                if stop.load(Ordering::Acquire) {
                    break;
                }
                let r = round_no.load(Ordering::Acquire);
                x ^= x << 13;
                x ^= x >> 7;
                x ^= x << 17;
                for _ in 0..(x % 300) {
                    std::hint::spin_loop();
                }
                for i in 0..burst {
                    if same && i == 0 {
                        if store.insert(format!("ck{r}").as_bytes(), b"auto-by-helper").is_ok() {
                            same_ok.fetch_add(1, Ordering::Relaxed);
                        }
                    } else {
                        x ^= x << 13;
                        x ^= x >> 7;
                        x ^= x << 17;
                        let _ = store.insert(format!("hk{h}-{}", x % pool).as_bytes(), b"auto");
                    }
                    writes.fetch_add(1, Ordering::Relaxed);
                }
                end.wait();
            }
        }));
    }
    let wall = std::time::SystemTime::now().duration_since(std::time::UNIX_EPOCH).map(|d| d.as_nanos() as u64).unwrap_or(0);
    let mut x = p.skew_seed | 1;
    for r in 0..p.rounds as u64 {
        round_no.store(r, Ordering::Release);
        let key = format!("ck{r}").into_bytes();
        let f = wall + p.ahead_s as u64 * 1_000_000_000 + r * 1_000_000;
        start.wait();
        x ^= x << 13;
        x ^= x >> 7;
        x ^= x << 17;
        for _ in 0..(x % 300) {
            std::hint::spin_loop();
        }
        let explicit = {
            let _g = env::watch("clock explicit insert");
            store.insert_with_timestamp(&key, b"explicit", Some(f))
        };
        end.wait();
        out.rounds += 1;
        // quiescent: every helper is parked at the next start barrier
        if explicit.is_err() {
            // refused by a helper's automatic write that was stamped above f? impossible: f is ahead
            // of the wall clock; the only legitimate refusal is a same-key automatic write that
            // had itself been stamped after an earlier absorbed future timestamp of the shard
            continue;
        }
        out.explicit_accepted += 1;
        let follow = {
            let _g = env::watch("clock quiescent call");
            match p.follow {
                1 => store.delete(&key).map(|_| ()),
                3 => store.compare_and_swap(&key, b"explicit", b"after").map(|_| ()),
                _ => store.insert(&key, b"after").map(|_| ()),
            }
        };
        if let Err(e) = follow {
            let cur = store.verif_peek(&key).map(|p| p.timestamp);
            out.failure = Some((
                "quiescent-automatic-call-refused".into(),
                format!(
                    "round {r}: insert_with_timestamp(ck{r}, Some({f})) returned Ok while {} helper thread(s) drew automatic timestamps; after all of them had returned and were parked, the automatic {} on ck{r} was refused with {e:?} (stored timestamp {cur:?}): in real-time order it is the newest write",
                    helpers,
                    match p.follow { 1 => "delete", 3 => "compare_and_swap", _ => "insert" }
                ),
            ));
            break;
        }
        if p.follow != 1 {
            match store.verif_peek(&key) {
                Some(pk) if pk.timestamp > f => {}
                other => {
                    out.failure = Some(("automatic-timestamp-not-above-explicit".into(), format!("round {r}: the automatic call after the accepted explicit timestamp {f} left ck{r} with timestamp {:?}", other.map(|p| p.timestamp))));
                    break;
                }
            }
        }
    }
    stop.store(true, Ordering::Release);
    start.wait();
    for h in handles {
        let _ = h.join();
    }
    out.helper_writes = writes.load(Ordering::Relaxed);
    out.same_key_auto_accepted = same_ok.load(Ordering::Relaxed);
    match Arc::try_unwrap(store) {
        Ok(s) => env::reap(s, path),
        Err(_) => {}
    }
    out
}

// ------------------------------------------------------------------------------------------
// C08S: a reader pinned between locating and reading an extent while the key goes away
// ------------------------------------------------------------------------------------------

/// Steered scenario on a persistent store with a tiny device (freed blocks are reused at once):
/// key K (with or without a TTL) is flushed and offloaded; a reader is parked between locating
/// K's extent and reading it (scheduling hook after_sector_load) while the main thread makes the
/// generation go away - overwrite, delete, TTL-only update followed by an overwrite, or expiry
/// (virtual clock jump) followed by a delete, a lazy expiry through another read, or a sweeper
/// pass - then flushes and writes other keys that want the freed blocks. No device write may
/// touch the pinned blocks until the reader has left, and the reader returns the old generation,
/// the new one, not-found or StaleExtent, never anything else.
#[derive(Clone, Debug, Serialize, Deserialize, PartialEq, Eq)]
pub struct PinnedProgram {
    pub plain_io: bool,
    pub cache: bool,
    /// value blocks of K (0 = small)
    pub blocks: u8,
    /// 0 no TTL, 1 long TTL, 2 one-second TTL (expires by a clock jump)
    pub ttl_mode: u8,
    /// how the generation goes away: 0 overwrite, 1 delete, 2 update_ttl then overwrite,
    /// 3 expiry + delete, 4 expiry + lazy removal by another read, 5 expiry + sweeper pass,
    /// 6 expiry + increment / insert_if_absent re-creating the key
    pub remover: u8,
    /// 0 get, 1 get_bytes, 2 range_query, 3 compare_and_swap (non-matching)
    pub reader: u8,
    pub park_ms: u8,
    /// keys written afterwards, each as large as K
    pub others: u8,
}

pub fn pinned_strategy() -> BoxedStrategy<PinnedProgram> {
    (any::<bool>(), proptest::bool::weighted(0.3), 0u8..4, 0u8..3, 0u8..7, 0u8..4, 30u8..90, 1u8..5)
        .prop_map(|(plain_io, cache, blocks, ttl_mode, remover, reader, park_ms, others)| {
            // expiry removers need the short TTL; the others keep the generated TTL mode
            let ttl_mode = if remover >= 3 { 2 } else { ttl_mode.min(1) };
            PinnedProgram { plain_io, cache, blocks, ttl_mode, remover, reader, park_ms, others }
        })
        .boxed()
}

#[derive(Default)]
pub struct PinnedOut {
    pub failure: Option<(String, String)>,
    pub reader_was_parked: bool,
    pub removed_while_parked: bool,
    pub reader_result: String,
}

pub fn run_pinned_program(p: &PinnedProgram) -> PinnedOut {
    const T0: u64 = 1_800_000_000_000_000_000;
    let mut out = PinnedOut::default();
    feoxdb::verif::set_thread_clock(None);
    feoxdb::verif::set_global_clock(Some(T0));
    let cfg = Config { persistent: true, version: 3, cache: p.cache, ttl: true, dev: DevSize::Tiny(24), max_memory: None, plain_io: p.plain_io, legacy_plain_meta: false, visible_cpus: 2 };
    let path = env::fresh_path("pinned");
    std::fs::File::create(&path).expect("create");
    let dev = crate::trace::register(&path, false);
    let finish = |out: PinnedOut, store: Option<Arc<feoxdb::FeoxStore>>, path: String| {
        sched::install(None);
        feoxdb::verif::set_global_clock(None);
        crate::trace::unregister(&path);
        match store.map(Arc::try_unwrap) {
            Some(Ok(s)) => env::reap(Some(s), Some(path)),
            Some(Err(s)) => env::reap(Some(s), Some(path)),
            None => {
                let _ = std::fs::remove_file(&path);
            }
        }
        out
    };
    let store = match seq::open_store(&cfg, Some(&path)) {
        Ok(s) => Arc::new(s),
        Err(e) => {
            out.failure = Some(("open-failed".into(), format!("{e:?}")));
            return finish(out, None, path);
        }
    };
    let make = |kid: u16, gen: u32, blocks: u8| -> Vec<u8> {
        let mut v = vec![0u8; if blocks == 0 { 80 } else { blocks as usize * 4096 - 300 }];
        seq::stamp_fill(&mut v, kid, gen);
        v
    };
    let fail = |sig: &str, msg: String| Some((sig.to_string(), msg));
    let key = b"pin-key".to_vec();
    let old = make(7, 1, p.blocks);
    let new = make(7, 2, p.blocks);
    let r = match p.ttl_mode {
        0 => store.insert(&key, &old).map(|_| ()),
        1 => store.insert_with_ttl(&key, &old, 3600).map(|_| ()),
        _ => store.insert_with_ttl(&key, &old, 1).map(|_| ()),
    };
    if r.is_err() || store.flush().is_err() {
        out.failure = fail("setup-failed", "insert + flush of the first generation failed".into());
        return finish(out, Some(store), path);
    }
    let t0 = std::time::Instant::now();
    while store.verif_peek(&key).is_some_and(|k| k.resident) && t0.elapsed() < std::time::Duration::from_secs(3) {
        std::thread::sleep(std::time::Duration::from_millis(5));
    }
    if store.verif_peek(&key).is_none_or(|k| k.resident || k.cached || k.sector == 0) {
        return finish(out, Some(store), path);
    }
    // park the first arrival between locating the extent and reading it
    let point = (crate::sched::POINTS.iter().position(|x| *x == "after_sector_load").unwrap_or(11) * 256 / crate::sched::POINTS.len() + 1) as u8;
    let ctl = Controller::new(Schedule::Park { seed: 1, parks: vec![crate::sched::Park { point, nth: 0, events: 255, max_ms: p.park_ms.max(20) }] });
    {
        let dev = dev.clone();
        *ctl.on_park_read.lock().unwrap() = Some(Box::new(move |sector, blocks, enter| {
            let mut d = dev.lock().unwrap();
            if enter {
                d.watch_overwrite.push((sector, blocks));
            } else if let Some(pos) = d.watch_overwrite.iter().position(|x| *x == (sector, blocks)) {
                d.watch_overwrite.remove(pos);
            }
        }));
    }
    sched::install(Some(ctl.clone()));
    let reader = {
        let (store, key, kind) = (store.clone(), key.clone(), p.reader);
        std::thread::spawn(move || -> std::result::Result<Option<Vec<u8>>, feoxdb::FeoxError> {
            match kind {
                0 => store.get(&key).map(Some),
                1 => store.get_bytes(&key).map(|b| Some(b.to_vec())),
                2 => store.range_query(b"pin-", b"pin-~", 10).map(|v| v.into_iter().find(|(k, _)| k == b"pin-key").map(|(_, v)| v)),
                _ => store.compare_and_swap(&key, b"\x01never\x02", b"x").map(|_| None),
            }
        })
    };
    let t1 = std::time::Instant::now();
    while ctl.parked.load(Ordering::Relaxed) == 0 && t1.elapsed() < std::time::Duration::from_millis(500) {
        std::thread::yield_now();
    }
    out.reader_was_parked = ctl.parked.load(Ordering::Relaxed) > 0;
    // the generation goes away while the reader holds its extent
    let jump = || feoxdb::verif::set_global_clock(Some(T0 + 2_000_000_000));
    let mut expect_new = false;
    let removed: std::result::Result<(), String> = match p.remover {
        0 => {
            expect_new = true;
            store.insert(&key, &new).map(|_| ()).map_err(|e| format!("overwrite failed: {e:?}"))
        }
        1 => store.delete(&key).map(|_| ()).map_err(|e| format!("delete failed: {e:?}")),
        2 => {
            expect_new = true;
            let a = store.update_ttl(&key, 7200).map_err(|e| format!("update_ttl failed: {e:?}"));
            let _ = store.flush();
            a.and(store.insert(&key, &new).map(|_| ()).map_err(|e| format!("overwrite failed: {e:?}")))
        }
        3 => {
            jump();
            let _ = store.delete(&key);
            Ok(())
        }
        4 => {
            jump();
            let _ = store.get(&key);
            let _ = store.atomic_increment(b"pin-other-counter", 1);
            Ok(())
        }
        5 => {
            jump();
            store.start_ttl_sweeper(Some(feoxdb::core::ttl_sweep::TtlConfig { sample_size: 20, expiry_threshold: 0.0, max_iterations: 16, max_time_per_run: std::time::Duration::from_millis(2), sleep_interval: std::time::Duration::from_millis(1), enabled: true }));
            std::thread::sleep(std::time::Duration::from_millis(8));
            Ok(())
        }
        _ => {
            jump();
            let _ = store.insert_if_absent(&key, &new);
            let _ = store.get(&key);
            Ok(())
        }
    };
    if let Err(e) = removed {
        out.failure = fail("writer-call-failed", e);
    }
    out.removed_while_parked = out.reader_was_parked && !reader.is_finished();
    // flush: the retirement of K's old extent must wait for the reader; then other keys want room
    let flusher = {
        let store = store.clone();
        std::thread::spawn(move || {
            let _g = env::watch("pinned flush");
            let _ = store.flush();
        })
    };
    for i in 0..p.others {
        let _ = store.insert(format!("pin-z-other-{i}").as_bytes(), &make(100 + i as u16, 1, p.blocks));
    }
    let _ = flusher.join();
    {
        let _g = env::watch("pinned flush 2");
        let _ = store.flush();
    }
    let got = reader.join().ok();
    sched::install(None);
    let hits = dev.lock().unwrap().overwrite_hits.clone();
    if out.failure.is_none() && !hits.is_empty() {
        out.failure = fail("extent-overwritten-while-read", format!("device blocks {hits:?} were written while a reader was held between locating and reading that extent (generation removed by {}, reader call {})", ["overwrite", "delete", "update_ttl + overwrite", "expiry + delete", "expiry + lazy removal", "expiry + sweeper", "expiry + re-creation"][(p.remover as usize).min(6)], ["get", "get_bytes", "range_query", "compare_and_swap"][(p.reader as usize).min(3)]));
    }
    match got {
        Some(Ok(Some(v))) if v == old => out.reader_result = "old".into(),
        Some(Ok(Some(v))) if v == new && (expect_new || p.remover == 6) => out.reader_result = "new".into(),
        Some(Ok(None)) => out.reader_result = "absent".into(),
        Some(Err(feoxdb::FeoxError::KeyNotFound)) if p.remover != 0 && p.remover != 2 => out.reader_result = "not-found".into(),
        Some(Err(feoxdb::FeoxError::StaleExtent)) => out.reader_result = "stale-extent".into(),
        other => {
            if out.failure.is_none() {
                out.failure = fail("reader-garbage", format!("the pinned reader returned neither a generation of the key nor an admissible error: {:?}", other.map(|r| r.map(|v| v.map(|v| (v.len(), seq::stamp_check(&v).ok()))))));
            }
        }
    }
    // afterwards the key reads as its final state and the others are intact
    if out.failure.is_none() {
        match (store.get(&key), p.remover) {
            (Ok(v), 0 | 2) if v == new => {}
            (Ok(v), 6) if v == new => {}
            // an expired generation that is still present may count as present for
            // insert_if_absent (remover 6), which then leaves the key expired
            (Err(feoxdb::FeoxError::KeyNotFound), 1 | 3 | 4 | 5 | 6) => {}
            (other, _) => out.failure = fail("final-state-wrong", format!("after the scenario get(K) returns {:?} (remover {})", other.map(|v| (v.len(), v == old, v == new)), p.remover)),
        }
    }
    if out.failure.is_none() {
        for i in 0..p.others {
            let want = make(100 + i as u16, 1, p.blocks);
            match store.get(format!("pin-z-other-{i}").as_bytes()) {
                Ok(v) if v == want => {}
                Err(feoxdb::FeoxError::KeyNotFound) => {}
                other => {
                    out.failure = fail("neighbour-damaged", format!("key pin-z-other-{i} written after the removal reads {:?}", other.map(|v| (v.len(), seq::stamp_check(&v).ok()))));
                    break;
                }
            }
        }
    }
    finish(out, Some(store), path)
}

// ------------------------------------------------------------------------------------------
// C16S: a reader that finishes its device read after the key was overwritten
// ------------------------------------------------------------------------------------------

/// Steered scenario on a persistent store with the cache on: key K is offloaded and not cached; a
/// reader is parked inside its device read of K while the main thread overwrites K; the reader then
/// returns the old value (legal) and leaves a cache entry that belongs to the retired generation.
/// After a flush of the new generation - with or without reads in between - a follow-up call that
/// consumes cached bytes (update_ttl, persist, get, compare-and-swap, increment) and a final read,
/// live and after a reopen, must all see the current generation.
#[derive(Clone, Debug, Serialize, Deserialize, PartialEq, Eq)]
pub struct StaleEntryProgram {
    pub ttl: bool,
    pub plain_io: bool,
    /// value blocks of the old / new generation (0 = small)
    pub old_blocks: u8,
    pub new_blocks: u8,
    /// other keys around (their reads and writes keep the cache busy)
    pub others: u8,
    /// 0 update_ttl, 1 persist, 2 get, 3 compare-and-swap, 4 nothing
    pub follow: u8,
    /// the reader is held in its device read for up to this many ms
    pub park_ms: u8,
    /// flush the new generation before the follow-up call
    pub flush_first: bool,
    /// read the key once between the flush and the follow-up call (replaces the stale entry)
    pub read_between: bool,
}

pub fn stale_entry_strategy() -> BoxedStrategy<StaleEntryProgram> {
    (any::<bool>(), any::<bool>(), 0u8..3, 0u8..3, 0u8..6, 0u8..5, 5u8..60, proptest::bool::weighted(0.85), proptest::bool::weighted(0.2))
        .prop_map(|(ttl, plain_io, old_blocks, new_blocks, others, follow, park_ms, flush_first, read_between)| StaleEntryProgram { ttl, plain_io, old_blocks, new_blocks, others, follow, park_ms, flush_first, read_between })
        .boxed()
}

#[derive(Default)]
pub struct StaleOut {
    pub failure: Option<(String, String)>,
    pub reader_was_parked: bool,
    pub reader_saw_old: bool,
}

pub fn run_stale_entry_program(p: &StaleEntryProgram) -> StaleOut {
    let mut out = StaleOut::default();
    feoxdb::verif::set_global_clock(None);
    feoxdb::verif::set_thread_clock(None);
    let cfg = Config { persistent: true, version: 3, cache: true, ttl: p.ttl, dev: DevSize::Normal, max_memory: None, plain_io: p.plain_io, legacy_plain_meta: false, visible_cpus: 2 };
    let path = env::fresh_path("stale");
    std::fs::File::create(&path).expect("create");
    let store = match seq::open_store(&cfg, Some(&path)) {
        Ok(s) => Arc::new(s),
        Err(e) => {
            out.failure = Some(("open-failed".into(), format!("{e:?}")));
            return out;
        }
    };
    let make = |gen: u32, blocks: u8| -> Vec<u8> {
        let mut v = vec![0u8; if blocks == 0 { 64 } else { blocks as usize * 4096 - 300 }];
        seq::stamp_fill(&mut v, 7, gen);
        v
    };
    let key = b"stale-key".to_vec();
    let (old, new) = (make(1, p.old_blocks), make(2, p.new_blocks));
    let fail = |sig: &str, msg: String| Some((sig.to_string(), msg));
    for i in 0..p.others {
        let _ = store.insert(format!("other-{i}").as_bytes(), &make(100 + i as u32, i % 3));
    }
    if store.insert(&key, &old).is_err() || store.flush().is_err() {
        out.failure = fail("setup-failed", "insert + flush of the first generation failed".into());
        env::reap(Arc::try_unwrap(store).ok(), Some(path));
        return out;
    }
    // wait until the value is offloaded (not resident) and make sure it is not cached
    let t0 = std::time::Instant::now();
    while store.verif_peek(&key).is_some_and(|k| k.resident) && t0.elapsed() < std::time::Duration::from_secs(3) {
        std::thread::sleep(std::time::Duration::from_millis(5));
    }
    if store.verif_peek(&key).is_none_or(|k| k.resident || k.cached) {
        // the value never left memory in this run: nothing to steer
        env::reap(Arc::try_unwrap(store).ok(), Some(path));
        return out;
    }
    // park the first arrival at the device-read window
    let point = (crate::sched::POINTS.iter().position(|x| *x == "after_sector_load").unwrap_or(11) * 256 / crate::sched::POINTS.len() + 1) as u8;
    let ctl = Controller::new(Schedule::Park { seed: 1, parks: vec![crate::sched::Park { point, nth: 0, events: 255, max_ms: p.park_ms.max(5) }] });
    sched::install(Some(ctl.clone()));
    let reader = {
        let (store, key) = (store.clone(), key.clone());
        std::thread::spawn(move || store.get(&key))
    };
    let t1 = std::time::Instant::now();
    while ctl.parked.load(Ordering::Relaxed) == 0 && t1.elapsed() < std::time::Duration::from_millis(500) {
        std::thread::yield_now();
    }
    out.reader_was_parked = ctl.parked.load(Ordering::Relaxed) > 0;
    // overwrite while the reader is inside its read
    let wrote = store.insert(&key, &new);
    let got = reader.join().ok();
    sched::install(None);
    if wrote.is_err() {
        out.failure = fail("writer-call-failed", format!("overwrite failed: {wrote:?}"));
    }
    match got {
        Some(Ok(v)) if v == old => out.reader_saw_old = true,
        Some(Ok(v)) if v == new => {}
        Some(Err(feoxdb::FeoxError::StaleExtent)) => {}
        other => {
            if out.failure.is_none() {
                out.failure = fail("reader-garbage", format!("the racing get returned neither generation: {:?}", other.map(|r| r.map(|v| v.len()))));
            }
        }
    }
    for i in 0..p.others {
        let _ = store.get(format!("other-{i}").as_bytes());
    }
    if out.failure.is_none() && p.flush_first {
        if let Err(e) = store.flush() {
            out.failure = fail("flush-failed", format!("{e:?}"));
        }
        let t2 = std::time::Instant::now();
        while store.verif_peek(&key).is_some_and(|k| k.resident) && t2.elapsed() < std::time::Duration::from_secs(2) {
            std::thread::sleep(std::time::Duration::from_millis(5));
        }
    }
    if out.failure.is_none() && p.read_between {
        match store.get(&key) {
            Ok(v) if v == new => {}
            other => out.failure = fail("stale-read", format!("get() after the overwrite completed returned {:?} instead of the current generation", other.map(|v| (v.len(), v == old)))),
        }
    }
    if out.failure.is_none() {
        let r = match p.follow {
            0 if p.ttl => store.update_ttl(&key, 3600).map(|_| ()),
            1 if p.ttl => store.persist(&key).map(|_| ()),
            2 => store.get(&key).map(|_| ()),
            3 => store.compare_and_swap(&key, &new, &new).map(|_| ()),
            _ => Ok(()),
        };
        if let Err(e) = r {
            out.failure = fail("follow-up-failed", format!("the follow-up call on the key failed: {e:?}"));
        }
    }
    let what = ["update_ttl", "persist", "get", "compare_and_swap", "no call"][(p.follow as usize).min(4)];
    if out.failure.is_none() {
        match store.get(&key) {
            Ok(v) if v == new => {}
            Ok(v) => out.failure = fail("stale-generation-after-follow-up", format!("after the overwrite completed and {what} ran, get() returns {} (parked reader {}, cache on)", if v == old { "the OVERWRITTEN generation".to_string() } else { format!("{} foreign bytes", v.len()) }, if out.reader_saw_old { "had returned the old value" } else { "did not see the old value" })),
            Err(e) => out.failure = fail("stale-generation-after-follow-up", format!("after {what}, get() fails with {e:?}")),
        }
    }
    // ... and it is the current generation that reaches the device
    if out.failure.is_none() {
        let _ = store.flush();
        match Arc::try_unwrap(store) {
            Ok(s) => {
                drop(s);
                let mut c2 = cfg.clone();
                c2.cache = false;
                match seq::open_store(&c2, Some(&path)) {
                    Ok(s2) => {
                        match s2.get(&key) {
                            Ok(v) if v == new => {}
                            other => out.failure = fail("stale-generation-after-restart", format!("after {what}, flush and restart the key reads {:?} instead of the current generation", other.map(|v| (v.len(), v == old)))),
                        }
                        env::reap(Some(s2), Some(path));
                    }
                    Err(e) => {
                        out.failure = fail("reopen-failed", format!("{e:?}"));
                        let _ = std::fs::remove_file(&path);
                    }
                }
            }
            Err(s) => env::reap(Some(s), Some(path)),
        }
    } else {
        env::reap(Arc::try_unwrap(store).ok(), Some(path));
    }
    out
}

use fxvlib::{env, props};

use env::Tier;

fn usage() -> ! {
    eprintln!("usage: fxv <C01..C20> [--tier quick|thorough] [--replay <file>]");
    std::process::exit(64);
}

fn main() {
    let args: Vec<String> = std::env::args().collect();
    if args.len() < 2 {
        usage();
    }
    let id = args[1].to_uppercase();
    let mut tier = match std::env::var("VERIF_TIER").as_deref() {
        Ok("thorough") => Tier::Thorough,
        _ => Tier::Quick,
    };
    let mut replay: Option<String> = None;
    if id == "C17" && args.get(2).map(|s| s.as_str()) == Some("--worker") {
        let seed: u64 = args[3].parse().unwrap_or(1);
        let lane: u64 = args[4].parse().unwrap_or(0);
        let count: u32 = args[5].parse().unwrap_or(1);
        let code = props::c17::worker(seed, lane, count, &args[6]);
        env::cleanup_scratch();
        std::process::exit(code);
    }
    if matches!(id.as_str(), "C07" | "C07M" | "C16S" | "C08" | "C08S" | "C11D" | "C13D" | "C14D" | "C16D" | "C18" | "C20") && args.get(2).map(|s| s.as_str()) == Some("--worker") {
        let seed: u64 = args[3].parse().unwrap_or(1);
        let lane: u64 = args[4].parse().unwrap_or(0);
        let count: u32 = args[5].parse().unwrap_or(1);
        let wtier = if args.get(7).map(|s| s.as_str()) == Some("thorough") { Tier::Thorough } else { Tier::Quick };
        let code = props::concprops::worker(&id, seed, lane, count, &args[6], wtier);
        env::cleanup_scratch();
        std::process::exit(code);
    }
    if id == "C18" && args.get(2).map(|s| s.as_str()) == Some("--single") {
        let limit: u64 = args.get(4).and_then(|s| s.parse().ok()).unwrap_or(60_000);
        let code = props::concprops::single(&args[3], limit);
        env::cleanup_scratch();
        std::process::exit(code);
    }
    let mut i = 2;
    while i < args.len() {
        match args[i].as_str() {
            "--tier" => {
                i += 1;
                tier = match args.get(i).map(|s| s.as_str()) {
                    Some("thorough") => Tier::Thorough,
                    Some("quick") => Tier::Quick,
                    _ => usage(),
                };
            }
            "--replay" => {
                i += 1;
                replay = Some(args.get(i).cloned().unwrap_or_else(|| usage()));
            }
            _ => usage(),
        }
        i += 1;
    }
    let seed = env::seed_from_env();
    env::set_watch_limit(tier.pick(60_000, 120_000));
    let code = props::dispatch(&id, tier, seed, replay.as_deref());
    env::wait_reaper();
    env::cleanup_scratch();
    std::process::exit(code);
}

//! Scheduling controller for hook H2 (DESIGN §4.6): generated jitter tables and bounded parks
//! at named scheduling points. Process-global: engine-D cases run one at a time per process.

use std::sync::atomic::{AtomicU64, Ordering};
use std::sync::{Arc, Mutex};
use std::time::{Duration, Instant};

use feoxdb::verif::SchedController;
use serde::{Deserialize, Serialize};

pub const POINTS: &[&str] = &[
    "after_upsert_read",
    "insert_before_enqueue",
    "update_before_enqueue",
    "delete_before_enqueue",
    "expire_before_enqueue",
    "after_json_patch_read",
    "increment_before_swap",
    "cas_before_swap",
    "replace_before_enqueue",
    "update_ttl_before_enqueue",
    "after_ttl_deferred_source",
    "after_sector_load",
    "after_pread",
    "ttl_after_expired_sample",
    "after_cache_bucket_clear",
    "flush_worker_shards",
    "before_retire_extents",
    "before_release",
    "batch_before_journal",
    "batch_before_data",
    "batch_before_clear",
    "batch_before_publish",
];

#[derive(Clone, Debug, Serialize, Deserialize, PartialEq, Eq)]
pub struct Park {
    /// index into POINTS (scaled)
    pub point: u8,
    /// hold the n-th arrival at that point
    pub nth: u8,
    /// until this many other scheduling events happened ...
    pub events: u8,
    /// ... or this many milliseconds passed (bounded: never forever)
    pub max_ms: u8,
}

#[derive(Clone, Debug, Serialize, Deserialize, PartialEq, Eq)]
pub enum Schedule {
    Free,
    /// density 0..=255: probability scale of a delay at each arrival
    Jitter { seed: u64, density: u8 },
    Park { seed: u64, parks: Vec<Park> },
}

pub struct Controller {
    schedule: Schedule,
    events: AtomicU64,
    occurrences: Vec<AtomicU64>,
    pub parked: AtomicU64,
    pub delayed: AtomicU64,
    /// (point, a, b) of threads currently parked at after_sector_load: for the no-overwrite oracle
    pub reading: Mutex<Vec<(u64, u64)>>,
    pub on_park_read: Mutex<Option<Box<dyn Fn(u64, u64, bool) + Send + Sync>>>,
}

fn mix(a: u64, b: u64) -> u64 {
    let mut x = a ^ b.wrapping_mul(0x9E3779B97F4A7C15);
    x ^= x >> 31;
    x = x.wrapping_mul(0xD6E8FEB86659FD93);
    x ^= x >> 29;
    x
}

impl Controller {
    pub fn new(schedule: Schedule) -> Arc<Self> {
        Arc::new(Controller {
            schedule,
            events: AtomicU64::new(0),
            occurrences: (0..POINTS.len()).map(|_| AtomicU64::new(0)).collect(),
            parked: AtomicU64::new(0),
            delayed: AtomicU64::new(0),
            reading: Mutex::new(Vec::new()),
            on_park_read: Mutex::new(None),
        })
    }
    pub fn events(&self) -> u64 {
        self.events.load(Ordering::Relaxed)
    }
    pub fn arrivals_at(&self, point: &str) -> u64 {
        POINTS.iter().position(|p| *p == point).map(|i| self.occurrences[i].load(Ordering::Relaxed)).unwrap_or(0)
    }
}

impl SchedController for Controller {
    fn arrive(&self, point: &'static str, a: u64, b: u64) {
        let n = self.events.fetch_add(1, Ordering::AcqRel);
        let idx = POINTS.iter().position(|p| *p == point);
        let occ = idx.map(|i| self.occurrences[i].fetch_add(1, Ordering::AcqRel)).unwrap_or(0);
        match &self.schedule {
            Schedule::Free => {}
            Schedule::Jitter { seed, density } => {
                let h = mix(*seed ^ n, idx.unwrap_or(99) as u64 + 17);
                if (h & 0xff) < *density as u64 {
                    self.delayed.fetch_add(1, Ordering::Relaxed);
                    match (h >> 8) % 4 {
                        0 => std::thread::yield_now(),
                        1 => std::thread::sleep(Duration::from_micros(20 + (h >> 16) % 80)),
                        2 => std::thread::sleep(Duration::from_micros(100 + (h >> 16) % 400)),
                        _ => std::thread::sleep(Duration::from_micros(500 + (h >> 16) % 1500)),
                    }
                }
            }
            Schedule::Park { seed, parks } => {
                let mine = parks.iter().find(|p| idx == Some((p.point as usize * POINTS.len()) >> 8) && p.nth as u64 == occ);
                if let Some(p) = mine {
                    self.parked.fetch_add(1, Ordering::Relaxed);
                    let is_read = point == "after_sector_load";
                    if is_read {
                        if let Some(cb) = self.on_park_read.lock().unwrap().as_ref() {
                            cb(a, b, true);
                        }
                    }
                    let target = n + 1 + p.events as u64;
                    let deadline = Instant::now() + Duration::from_millis(p.max_ms.clamp(1, 200) as u64);
                    while self.events.load(Ordering::Acquire) < target && Instant::now() < deadline {
                        std::thread::sleep(Duration::from_micros(50));
                    }
                    if is_read {
                        if let Some(cb) = self.on_park_read.lock().unwrap().as_ref() {
                            cb(a, b, false);
                        }
                    }
                } else {
                    // light jitter elsewhere keeps the other threads moving differently per seed
                    let h = mix(*seed ^ n, 5);
                    if h & 0x1f == 0 {
                        std::thread::yield_now();
                    }
                }
            }
        }
    }
}

pub fn install(c: Option<Arc<Controller>>) {
    feoxdb::verif::set_sched_controller(c.map(|c| c as Arc<dyn SchedController>));
}

pub fn schedule_strategy() -> proptest::strategy::BoxedStrategy<Schedule> {
    use proptest::prelude::*;
    // read-path points (after_sector_load = 11, after_pread = 12 of 22) get extra weight
    let point = prop_oneof![3 => any::<u8>(), 2 => Just((11 * 256 / POINTS.len() + 1) as u8), 1 => Just((12 * 256 / POINTS.len() + 1) as u8)];
    let nth = prop_oneof![3 => 0u8..4, 2 => 4u8..60];
    let park = (point, nth, 1u8..40, 1u8..60).prop_map(|(point, nth, events, max_ms)| Park { point, nth, events, max_ms });
    prop_oneof![
        4 => Just(Schedule::Free),
        5 => (any::<u64>(), prop_oneof![Just(20u8), Just(60), Just(140), Just(255)]).prop_map(|(seed, density)| Schedule::Jitter { seed, density }),
        5 => (any::<u64>(), proptest::collection::vec(park, 1..4)).prop_map(|(seed, parks)| Schedule::Park { seed, parks }),
    ]
    .boxed()
}

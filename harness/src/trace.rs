//! Device-I/O trace (hook H1) and fault plans, per device (keyed by inode), plus the
//! crash-state model: durable prefix + arbitrary subset / sector tearing of un-synced writes.

use std::collections::HashMap;
use std::os::unix::fs::MetadataExt;
use std::sync::{Arc, Mutex, OnceLock};

use feoxdb::verif::{IoConsumer, IoDecision, IoEvent, IoKind};

#[derive(Clone, Debug, PartialEq, Eq)]
pub enum Mark {
    OpBegin { step: usize, now: u64 },
    OpEnd { step: usize },
    FlushBegin { step: usize },
    FlushOk { step: usize },
    FlushErr { step: usize },
    DropBegin,
    DropEnd,
    OpenBegin,
    OpenEnd,
}

#[derive(Clone, Debug)]
pub enum Entry {
    Write { off: u64, data: Arc<Vec<u8>>, uring: bool, failed: bool },
    FsyncBegin,
    FsyncEnd { ok: bool },
    Mark(Mark),
}

#[derive(Clone, Copy, Debug, PartialEq, Eq)]
pub enum FaultMode {
    Before,
    After,
}

/// Fail I/O calls (writes and fsyncs, counted together from 0) with index in `from..from+count`.
#[derive(Clone, Debug)]
pub struct FaultPlan {
    pub from: usize,
    pub count: usize, // usize::MAX = forever
    pub mode: FaultMode,
    pub errno: i32,
    /// second, independent single fault (pairs)
    pub second: Option<(usize, FaultMode)>,
    /// repeat the `count` failing calls every `period` calls (0 = no repetition)
    pub period: usize,
    /// only calls at this site ("data-write", "journal-write", "metadata-write", "fsync", or the
    /// finer "record-write" / "marker-write" inside the data area) are counted and failed;
    /// None = every write and fsync
    pub site: Option<&'static str>,
}

#[derive(Default)]
pub struct Device {
    pub entries: Vec<Entry>,
    pub io_calls: usize,
    pub site_calls: usize,
    pub plan: Option<FaultPlan>,
    pub faults_injected: usize,
    pub injected_sites: Vec<(usize, &'static str)>,
    pub recording: bool,
    pub reads: Vec<(u64, u64)>,
    /// block ranges currently pinned by parked readers: (first block, blocks)
    pub watch_overwrite: Vec<(u64, u64)>,
    pub overwrite_hits: Vec<(u64, u64)>,
    /// fsyncs that reached the device and have not returned yet
    pub open_fsyncs: usize,
}

pub type DeviceRef = Arc<Mutex<Device>>;

struct Registry {
    devices: Mutex<HashMap<(u64, u64), DeviceRef>>,
}

fn registry() -> &'static Registry {
    static R: OnceLock<Registry> = OnceLock::new();
    R.get_or_init(|| Registry { devices: Mutex::new(HashMap::new()) })
}

thread_local! {
    static SKIP_FSYNC_AFTER: std::cell::Cell<bool> = const { std::cell::Cell::new(false) };
}

struct Consumer;

fn ident_of_fd(fd: i32) -> Option<(u64, u64)> {
    let mut st: libc::stat = unsafe { std::mem::zeroed() };
    let r = unsafe { libc::fstat(fd, &mut st) };
    if r == 0 {
        Some((st.st_dev as u64, st.st_ino as u64))
    } else {
        None
    }
}

fn device_of_fd(fd: i32) -> Option<DeviceRef> {
    let id = ident_of_fd(fd)?;
    registry().devices.lock().unwrap().get(&id).cloned()
}

fn site_name(kind: IoKind, off: u64) -> &'static str {
    match kind {
        IoKind::Fsync => "fsync",
        IoKind::Read => "read",
        IoKind::Write | IoKind::UringWrite => {
            let block = off / 4096;
            if block == 0 || block == 7 {
                "metadata-write"
            } else if (1..7).contains(&block) {
                "journal-write"
            } else {
                "data-write"
            }
        }
    }
}

impl IoConsumer for Consumer {
    fn before(&self, ev: &IoEvent<'_>) -> IoDecision {
        let Some(dev) = device_of_fd(ev.fd) else { return IoDecision::Proceed };
        let mut d = dev.lock().unwrap();
        match ev.kind {
            IoKind::Read => {
                if d.recording {
                    d.reads.push((ev.offset, 0));
                }
                IoDecision::Proceed
            }
            IoKind::Write | IoKind::UringWrite | IoKind::Fsync => {
                let mut idx = d.io_calls;
                d.io_calls += 1;
                let mut decision = IoDecision::Proceed;
                let site_filter = d.plan.as_ref().and_then(|p| p.site);
                // finer split of the data area: retirement-marker writes vs record writes
                let fine = if site_name(ev.kind, ev.offset) == "data-write" { if ev.data.starts_with(b"\0DELETED") { "marker-write" } else { "record-write" } } else { "" };
                let site_matches = site_filter.is_none_or(|s| s == site_name(ev.kind, ev.offset) || s == fine);
                if site_filter.is_some() && site_matches {
                    idx = d.site_calls;
                    d.site_calls += 1;
                }
                if let (Some(plan), true) = (&d.plan, site_matches) {
                    let in_first = idx >= plan.from
                        && (plan.count == usize::MAX
                            || if plan.period > 0 { (idx - plan.from) % plan.period < plan.count } else { idx < plan.from.saturating_add(plan.count) });
                    if in_first {
                        decision = match plan.mode {
                            FaultMode::Before => IoDecision::FailBefore(plan.errno),
                            FaultMode::After => IoDecision::FailAfter(plan.errno),
                        };
                    } else if let Some((k2, m2)) = plan.second {
                        if idx == k2 {
                            decision = match m2 {
                                FaultMode::Before => IoDecision::FailBefore(plan.errno),
                                FaultMode::After => IoDecision::FailAfter(plan.errno),
                            };
                        }
                    }
                }
                // io_uring submissions can only be failed as a whole, before submission
                if ev.kind == IoKind::UringWrite {
                    if let IoDecision::FailAfter(e) = decision {
                        decision = IoDecision::FailBefore(e);
                    }
                }
                if decision != IoDecision::Proceed {
                    d.faults_injected += 1;
                    d.injected_sites.push((idx, site_name(ev.kind, ev.offset)));
                }
                if ev.kind != IoKind::Fsync && !matches!(decision, IoDecision::FailBefore(_)) {
                    let first = ev.offset / 4096;
                    let blocks = (ev.data.len() as u64).div_ceil(4096);
                    let hit = d.watch_overwrite.iter().copied().find(|(s, n)| first < s + n && *s < first + blocks);
                    if let Some(h) = hit {
                        d.overwrite_hits.push(h);
                    }
                }
                if d.recording {
                    match ev.kind {
                        IoKind::Fsync => {
                            if !matches!(decision, IoDecision::FailBefore(_)) {
                                d.entries.push(Entry::FsyncBegin);
                                d.open_fsyncs += 1;
                            } else {
                                // the matching after() call of this thread must not close another
                                // thread's fsync
                                SKIP_FSYNC_AFTER.with(|f| f.set(true));
                            }
                        }
                        _ => {
                            let failed = matches!(decision, IoDecision::FailBefore(_));
                            d.entries.push(Entry::Write {
                                off: ev.offset,
                                data: Arc::new(ev.data.to_vec()),
                                uring: ev.kind == IoKind::UringWrite,
                                failed,
                            });
                        }
                    }
                }
                decision
            }
        }
    }

    fn after(&self, ev: &IoEvent<'_>, ok: bool) {
        let Some(dev) = device_of_fd(ev.fd) else { return };
        let mut d = dev.lock().unwrap();
        if !d.recording {
            return;
        }
        match ev.kind {
            IoKind::Fsync => {
                // a FailBefore fsync never reached the device: no FsyncBegin was pushed. Other
                // threads (application marks, other writers) may have appended entries since the
                // FsyncBegin, so the end is matched by count, not by position.
                if SKIP_FSYNC_AFTER.with(|f| f.replace(false)) {
                    return;
                }
                if d.open_fsyncs > 0 {
                    d.open_fsyncs -= 1;
                    d.entries.push(Entry::FsyncEnd { ok });
                }
            }
            IoKind::UringWrite => {
                if !ok {
                    // the whole submission was suppressed: retract the queued writes
                    let off = ev.offset;
                    if let Some(pos) = d.entries.iter().rposition(|e| matches!(e, Entry::Write { off: o, uring: true, failed: false, .. } if *o == off)) {
                        if let Entry::Write { failed, .. } = &mut d.entries[pos] {
                            *failed = true;
                        }
                    }
                }
            }
            _ => {}
        }
    }
}

pub fn install() {
    static ONCE: OnceLock<()> = OnceLock::new();
    ONCE.get_or_init(|| {
        feoxdb::verif::set_io_consumer(Some(Arc::new(Consumer)));
    });
}

/// Register the file at `path` (must exist) and return its device handle.
pub fn register(path: &str, recording: bool) -> DeviceRef {
    install();
    let md = std::fs::metadata(path).expect("stat device");
    let id = (md.dev(), md.ino());
    let dev = Arc::new(Mutex::new(Device { recording, ..Device::default() }));
    registry().devices.lock().unwrap().insert(id, dev.clone());
    dev
}

pub fn unregister(path: &str) {
    if let Ok(md) = std::fs::metadata(path) {
        registry().devices.lock().unwrap().remove(&(md.dev(), md.ino()));
    }
}

pub fn mark(dev: &DeviceRef, m: Mark) {
    let mut d = dev.lock().unwrap();
    if d.recording {
        d.entries.push(Entry::Mark(m));
    }
}

// ------------------------------------------------------------------------------------------
// crash-state model
// ------------------------------------------------------------------------------------------

/// For a crash right after entry `p` (inclusive): indices of durable writes and of volatile ones.
pub fn split_at(entries: &[Entry], p: usize) -> (Vec<usize>, Vec<usize>) {
    let mut durable = Vec::new();
    let mut volatile = Vec::new();
    let mut pending_at_fsync: Option<usize> = None; // number of volatile writes covered by the open fsync
    for (i, e) in entries.iter().enumerate().take(p + 1) {
        match e {
            Entry::Write { failed: false, .. } => volatile.push(i),
            Entry::Write { .. } => {}
            Entry::FsyncBegin => pending_at_fsync = Some(volatile.len()),
            Entry::FsyncEnd { ok } => {
                if *ok {
                    let n = pending_at_fsync.unwrap_or(volatile.len());
                    durable.extend(volatile.drain(..n));
                }
                pending_at_fsync = None;
            }
            Entry::Mark(_) => {}
        }
    }
    (durable, volatile)
}

pub fn apply_write(img: &mut [u8], entries: &[Entry], i: usize, sector_mask: Option<u64>) {
    if let Entry::Write { off, data, .. } = &entries[i] {
        let off = *off as usize;
        if off + data.len() > img.len() {
            return;
        }
        match sector_mask {
            None => img[off..off + data.len()].copy_from_slice(data),
            Some(mask) => {
                let sectors = data.len().div_ceil(512);
                for s in 0..sectors {
                    // masks repeat every 64 sectors for long writes
                    if mask >> (s % 64) & 1 == 1 {
                        let a = s * 512;
                        let b = (a + 512).min(data.len());
                        img[off + a..off + b].copy_from_slice(&data[a..b]);
                    }
                }
            }
        }
    }
}

/// Build the image: base + durable writes + the chosen volatile writes (bit i of `subset`
/// selects volatile[i]; `torn` = (index into volatile, sector mask)).
pub fn build_image(base: &[u8], entries: &[Entry], durable: &[usize], volatile: &[usize], subset: &[bool], torn: Option<(usize, u64)>) -> Vec<u8> {
    let mut img = base.to_vec();
    for &i in durable {
        apply_write(&mut img, entries, i, None);
    }
    for (j, &i) in volatile.iter().enumerate() {
        if let Some((tj, mask)) = torn {
            if tj == j {
                apply_write(&mut img, entries, i, Some(mask));
                continue;
            }
        }
        if subset[j] {
            apply_write(&mut img, entries, i, None);
        }
    }
    img
}

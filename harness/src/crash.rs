//! Engine B: workloads with a device-I/O trace; crash images (prefix x subset of un-synced
//! writes x sector tearing); every image is reopened with the real code and judged against the
//! per-key history window (C02, C03), and recovery itself is crashed and repeated (C04).

use std::collections::{BTreeMap, HashSet};
use std::sync::Arc;

use crate::env;
use crate::layout;
use crate::model;
use crate::ops::*;
use crate::seq::{self, CaseStats, Flags, Runner};
use crate::trace::{self, Entry, Mark};

#[derive(Clone, Debug, PartialEq, Eq)]
pub struct GenInfo {
    pub value: Arc<Vec<u8>>,
    pub ts: u64,
    pub expiry: u64,
}

#[derive(Clone, Debug)]
pub struct Hist {
    pub step: i64,
    pub gen: Option<GenInfo>,
}

pub struct WorkloadRun {
    pub cfg: Config,
    pub base: Vec<u8>,
    pub entries: Vec<Entry>,
    pub hist: BTreeMap<Vec<u8>, Vec<Hist>>,
    pub stats: CaseStats,
    pub usable: bool,
    pub note: String,
    pub final_now: u64,
}

fn gen_of(g: Option<&model::Gen>) -> Option<GenInfo> {
    g.map(|g| GenInfo { value: g.value.clone(), ts: g.ts, expiry: g.expiry })
}

pub fn run_workload(case: &Case) -> WorkloadRun {
    let cfg = case.cfg.clone();
    let path = env::fresh_path("wl");
    let blocks = cfg.dev.blocks();
    let base = if cfg.version < 3 {
        let img = layout::fresh_image(cfg.version, blocks, cfg.legacy_plain_meta);
        std::fs::write(&path, &img).expect("legacy device");
        img
    } else {
        std::fs::File::create(&path).expect("create device");
        vec![0u8; blocks as usize * 4096]
    };
    let dev = trace::register(&path, true);
    trace::mark(&dev, Mark::OpenBegin);
    // the per-step snapshot comparison is O(keys): with thousands of keys it would slow the
    // application down so much that the background flusher drains every few calls
    let flags = Flags { results: true, snapshot: case.keys.len() < 600, ..Flags::default() };
    let mut hist: BTreeMap<Vec<u8>, Vec<Hist>> = BTreeMap::new();
    for k in &case.keys {
        hist.insert(k.clone(), vec![Hist { step: -1, gen: None }]);
    }
    let mut runner = match Runner::with_path(case, &flags, Some(path.clone()), Some(dev.clone())) {
        Ok(r) => r,
        Err(e) => {
            trace::unregister(&path);
            let _ = std::fs::remove_file(&path);
            return WorkloadRun { cfg, base, entries: Vec::new(), hist, stats: CaseStats::default(), usable: false, note: format!("open failed: {e}"), final_now: 0 };
        }
    };
    trace::mark(&dev, Mark::OpenEnd);
    runner.readback_policy = Some(2);
    // half of the workloads acknowledge through several application threads at once: every
    // flush() that returns Ok is an acknowledgement of everything completed before it began
    runner.co_flush = match case.t0_offset % 4 {
        1 => 1,
        2 => 2,
        _ => 0,
    };
    {
        let dev = dev.clone();
        runner.co_flush_ack = Some(Arc::new(move |step: usize| trace::mark(&dev, Mark::FlushOk { step })));
    }
    let mut usable = true;
    let mut note = String::new();
    let dbg_t0 = std::time::Instant::now();
    for (step, op) in case.ops.iter().enumerate() {
        if std::env::var("FXV_DEBUG_MASS").is_ok() && step % 500 == 0 && case.keys.len() > 600 {
            eprintln!("mass workload step {step} at {:?}", dbg_t0.elapsed());
        }
        trace::mark(&dev, Mark::OpBegin { step, now: runner.model.now });
        if matches!(op, Op::Flush) {
            trace::mark(&dev, Mark::FlushBegin { step });
        }
        let key = op.key().map(|k| runner.resolve_key(k));
        let pre = key.as_ref().and_then(|k| gen_of(runner.model.map.get(k)));
        let before_keys: Option<BTreeMap<Vec<u8>, model::Gen>> = matches!(op, Op::Reopen { .. }).then(|| runner.model.map.clone());
        let tlen = runner.transcript.len();
        if let Some(f) = runner.step(step, op) {
            usable = false;
            note = format!("workload stopped by [{}] {}", f.oracle, f.msg);
            break;
        }
        if let Some(k) = &key {
            let post = gen_of(runner.model.map.get(k));
            if pre != post {
                hist.entry(k.clone()).or_insert_with(|| vec![Hist { step: -1, gen: None }]).push(Hist { step: step as i64, gen: post });
            }
        }
        if let Some(before) = before_keys {
            for (k, _) in before.iter() {
                if !runner.model.map.contains_key(k) {
                    hist.entry(k.clone()).or_insert_with(|| vec![Hist { step: -1, gen: None }]).push(Hist { step: step as i64, gen: None });
                }
            }
        }
        if matches!(op, Op::Flush) {
            let ok = runner.transcript.len() > tlen && matches!(runner.transcript.last(), Some(model::Res::Unit));
            trace::mark(&dev, if ok { Mark::FlushOk { step } } else { Mark::FlushErr { step } });
            if case.keys.first().is_some_and(|k| k.starts_with(b"end-")) {
                if let Some(s) = runner.store.as_ref() {
                    let snap = s.verif_snapshot();
                    let blocks = cfg.dev.blocks();
                    if std::env::var("FXV_DEBUG_END").is_ok() {
                        eprintln!("END step {step} blocks {blocks} free {:?} records {:?}", snap.free_runs, snap.records.iter().map(|r| (r.sector, layout::record_blocks(snap.format_version, r.key.len(), r.value_len))).collect::<Vec<_>>());
                    }
                    if snap.records.iter().any(|r| r.sector != 0 && r.sector + layout::record_blocks(snap.format_version, r.key.len(), r.value_len) as u64 == blocks) {
                        runner.stats.hit(if ok { "flush_ok_with_record_ending_at_device_end" } else { "flush_err_with_record_ending_at_device_end" });
                    } else {
                        runner.stats.hit(if ok { "flush_ok_no_record_at_device_end" } else { "flush_err_no_record_at_device_end" });
                    }
                }
            }
        }
        trace::mark(&dev, Mark::OpEnd { step });
    }
    // optional clean close at the end
    if usable && case.t0_offset % 2 == 0 {
        // a clean close is only an acknowledgement when everything pending surely fits
        let fits = runner.store.as_ref().map(|s| {
            let snap = s.verif_snapshot();
            let largest = snap.free_runs.iter().map(|(_, n)| *n).max().unwrap_or(0);
            let pending: u64 = snap.records.iter().filter(|r| r.sector == 0).map(|r| layout::record_blocks(snap.format_version, r.key.len(), r.value_len) as u64).sum();
            pending <= largest
        });
        if fits == Some(true) {
            let step = case.ops.len();
            trace::mark(&dev, Mark::OpBegin { step, now: runner.model.now });
            trace::mark(&dev, Mark::DropBegin);
            let store = runner.store.take();
            {
                let _g = env::watch("clean final drop");
                drop(store);
            }
            trace::mark(&dev, Mark::DropEnd);
            runner.stats.hit("clean_final_drop");
        }
    }
    let entries = {
        let mut d = dev.lock().unwrap();
        d.recording = false;
        std::mem::take(&mut d.entries)
    };
    let final_now = runner.model.now;
    let (stats, _) = runner.finish();
    // the reaper removes the file; the registry entry is dropped lazily
    WorkloadRun { cfg, base, entries, hist, stats, usable, note, final_now }
}

// ------------------------------------------------------------------------------------------
// reading back an image
// ------------------------------------------------------------------------------------------

#[derive(Clone, Debug, PartialEq, Eq)]
pub struct Contents {
    pub map: BTreeMap<Vec<u8>, (Vec<u8>, u64, u64)>,
    pub len: usize,
    pub range_len: usize,
    pub extents: Vec<(u64, u64)>,
    /// memory_usage() right after recovery and the sum the recovered records account for
    pub memory_usage: usize,
    pub memory_expected: usize,
    /// C05: exact partition of the data area right after recovery (None = exact)
    pub partition_problem: Option<(String, String)>,
    /// C12 (only when `PROBE_CLOCK` is set on this thread): an automatic write on a recovered key
    /// was refused or did not get a timestamp above the recovered one
    pub clock_problem: Option<String>,
    /// keys probed / probe skipped because a recovered timestamp sits in the saturation range
    pub clock_probed: usize,
    pub clock_skipped_saturated: bool,
}

thread_local! {
    /// when set, `open_image` follows the read-back with automatic writes on recovered keys (C12)
    pub static PROBE_CLOCK: std::cell::Cell<bool> = const { std::cell::Cell::new(false) };
}

/// C12 after recovery: automatic writes on recovered keys must be accepted with a timestamp above
/// the recovered one (keys chosen: the highest recovered timestamps and the first ones).
fn probe_clock(store: &feoxdb::FeoxStore, map: &BTreeMap<Vec<u8>, (Vec<u8>, u64, u64)>) -> (Option<String>, usize, bool) {
    if map.values().any(|(_, ts, _)| *ts >= u64::MAX - (1 << 20)) {
        return (None, 0, true);
    }
    let mut by_ts: Vec<(&Vec<u8>, u64)> = map.iter().map(|(k, v)| (k, v.1)).collect();
    by_ts.sort_by(|a, b| b.1.cmp(&a.1));
    let mut chosen: Vec<(&Vec<u8>, u64)> = by_ts.iter().take(4).copied().collect();
    for (k, v) in map.iter().take(2) {
        if !chosen.iter().any(|(c, _)| *c == k) {
            chosen.push((k, v.1));
        }
    }
    let mut probed = 0;
    for (k, ts) in chosen {
        probed += 1;
        let _g = env::watch("clock probe");
        match store.insert(k, b"clock-probe") {
            Ok(_) => match store.verif_peek(k) {
                Some(p) if p.timestamp > ts => {}
                Some(p) => return (Some(format!("an automatic insert on recovered key {} (timestamp {ts}) was accepted with timestamp {} which is not above it", model::short(k), p.timestamp)), probed, false),
                None => return (Some(format!("key {} vanished right after an accepted automatic insert", model::short(k))), probed, false),
            },
            Err(e) => return (Some(format!("an automatic insert on recovered key {} (recovered timestamp {ts}) was refused: {e:?}", model::short(k))), probed, false),
        }
    }
    (None, probed, false)
}

pub struct Opened {
    pub contents: Contents,
    pub recovery_entries: Vec<Entry>,
    /// file bytes right after recovery returned
    pub post_image: Vec<u8>,
}

/// Write `img` to a scratch file, open it with the real code at virtual time `now`, read
/// everything back. The store is handed to the reaper.
pub fn open_image(img: &[u8], cfg: &Config, now: u64, record: bool, want_post: bool) -> Result<Opened, String> {
    let path = env::fresh_path("img");
    std::fs::write(&path, img).expect("write image");
    let dev = trace::register(&path, record);
    feoxdb::verif::set_thread_clock(Some(now));
    let mut c = cfg.clone();
    c.plain_io = true;
    c.max_memory = None;
    c.visible_cpus = 2;
    let store = match seq::open_store(&c, Some(&path)) {
        Ok(s) => s,
        Err(e) => {
            trace::unregister(&path);
            let _ = std::fs::remove_file(&path);
            return Err(format!("{:?}", model::classify(&e)));
        }
    };
    let recovery_entries = {
        let mut d = dev.lock().unwrap();
        d.recording = false;
        std::mem::take(&mut d.entries)
    };
    let post_image = if want_post { std::fs::read(&path).unwrap_or_default() } else { Vec::new() };
    let snap = store.verif_snapshot();
    let mut map = BTreeMap::new();
    let mut extents = Vec::new();
    let mut read_error = None;
    for r in &snap.records {
        let _g = env::watch("image get");
        match store.get(&r.key) {
            Ok(v) => {
                map.insert(r.key.clone(), (v, r.timestamp, r.expiry));
            }
            Err(feoxdb::FeoxError::KeyNotFound) => {}
            Err(e) => read_error = Some(format!("get({}) failed: {e:?}", model::short(&r.key))),
        }
        extents.push((r.sector, layout::record_blocks(snap.format_version, r.key.len(), r.value_len) as u64));
    }
    let partition_problem = partition_problem(&snap);
    let len = store.len();
    let memory_usage = store.memory_usage();
    let memory_expected: usize = snap.records.iter().map(|r| seq::rec_overhead() + r.key.len() + r.value_len).sum();
    let range_len = {
        let _g = env::watch("image range");
        store.range_query(b"", &[0xff; 4100], usize::MAX).map(|p| p.len()).unwrap_or(usize::MAX)
    };
    let records = snap.records.len();
    let (clock_problem, clock_probed, clock_skipped_saturated) = if PROBE_CLOCK.with(|c| c.get()) && read_error.is_none() { probe_clock(&store, &map) } else { (None, 0, false) };
    trace::unregister(&path);
    env::reap(store, Some(path));
    if let Some(e) = read_error {
        return Err(format!("read-after-open: {e}"));
    }
    if records != len {
        return Err(format!("len-mismatch: len()={len} but {records} records are indexed"));
    }
    Ok(Opened { contents: Contents { map, len, range_len, extents, memory_usage, memory_expected, partition_problem, clock_problem, clock_probed, clock_skipped_saturated }, recovery_entries, post_image })
}

/// C05 structural oracle on a store snapshot taken while nothing is in flight: every data block
/// belongs to exactly one live extent or to the free pool, free runs are merged, the usage counter
/// equals the live blocks.
pub fn partition_problem(snap: &feoxdb::core::store::verif::VerifSnapshot) -> Option<(String, String)> {
    let total = snap.device_size / 4096;
    let ver = snap.format_version;
    let mut owner: Vec<u8> = vec![0; total as usize];
    let mut live_blocks = 0u64;
    for r in &snap.records {
        let blocks = layout::record_blocks(ver, r.key.len(), r.value_len) as u64;
        if r.sector == 0 {
            continue; // not flushed yet: owns nothing on the device
        }
        if r.sector < 16 || r.sector + blocks > total {
            return Some(("extent-out-of-bounds".into(), format!("key {} extent {}+{} outside the data area 16..{}", model::short(&r.key), r.sector, blocks, total)));
        }
        for b in r.sector..r.sector + blocks {
            if owner[b as usize] != 0 {
                return Some(("block-doubly-owned".into(), format!("block {b} belongs to two live records (second: {})", model::short(&r.key))));
            }
            owner[b as usize] = 1;
        }
        live_blocks += blocks;
    }
    let mut prev_end = 0u64;
    let mut free_blocks = 0u64;
    for (s, n) in &snap.free_runs {
        if *s < 16 || s + n > total || *n == 0 {
            return Some(("free-run-out-of-bounds".into(), format!("free run {s}+{n} outside the data area")));
        }
        if *s == prev_end && prev_end != 0 {
            return Some(("free-runs-not-merged".into(), format!("adjacent free runs meeting at {s} are not merged")));
        }
        prev_end = s + n;
        for b in *s..s + n {
            if owner[b as usize] != 0 {
                return Some(("block-live-and-free".into(), format!("block {b} is both in a live extent and in the free pool")));
            }
            owner[b as usize] = 2;
        }
        free_blocks += n;
    }
    if let Some(b) = (16..total).find(|b| owner[*b as usize] == 0) {
        return Some(("block-leaked".into(), format!("block {b} belongs to no live record and is not free ({live_blocks} live + {free_blocks} free of {} data blocks)", total - 16)));
    }
    if snap.disk_usage != live_blocks * 4096 {
        return Some(("disk-usage-counter".into(), format!("disk usage counter {} != live blocks {live_blocks} * 4096", snap.disk_usage)));
    }
    None
}

// ------------------------------------------------------------------------------------------
// windows
// ------------------------------------------------------------------------------------------

pub const FAR_FUTURE: u64 = 400 * 24 * 3600 * 1_000_000_000;

#[derive(Clone)]
pub struct PointInfo {
    pub begun: i64,
    pub acked: i64,
    pub now: u64,
    pub in_open: bool,
}

/// begun/acked step numbers for a crash right after entry `p`.
pub fn point_info(entries: &[Entry], p: usize, t0: u64) -> PointInfo {
    let mut begun = -1i64;
    let mut acked = -1i64;
    let mut now = t0;
    let mut in_open = false;
    for e in entries.iter().take(p + 1) {
        if let Entry::Mark(m) = e {
            match m {
                Mark::OpBegin { step, now: n } => {
                    begun = *step as i64;
                    now = *n;
                }
                Mark::FlushOk { step } => acked = acked.max(*step as i64),
                Mark::DropEnd => acked = acked.max(begun),
                Mark::OpenBegin => in_open = true,
                Mark::OpenEnd => in_open = false,
                _ => {}
            }
        }
    }
    PointInfo { begun, acked, now, in_open }
}

fn rep(h: &Hist, ttl: bool, now: u64) -> Option<&GenInfo> {
    h.gen.as_ref().filter(|g| !(ttl && g.expiry > 0 && now > g.expiry))
}

#[derive(Clone, Debug)]
pub struct Verdict {
    pub signature: String,
    pub msg: String,
}

/// C02/C03 judgement of recovered contents for a crash at `p`.
pub fn judge(run: &WorkloadRun, contents: &Contents, info: &PointInfo) -> Result<(), Verdict> {
    let ttl = run.cfg.ttl;
    for k in contents.map.keys() {
        if !run.hist.contains_key(k) {
            return Err(Verdict { signature: "ghost-key".into(), msg: format!("recovered store exposes key {} that the application never wrote", model::short(k)) });
        }
    }
    for (k, h) in &run.hist {
        let l = h.iter().rposition(|x| x.step <= info.begun).unwrap_or(0);
        let a = h.iter().rposition(|x| x.step < info.acked).unwrap_or(0);
        let a = a.min(l);
        let got = contents.map.get(k);
        let admissible = (a..=l).any(|j| match (rep(&h[j], ttl, info.now), got) {
            (None, None) => true,
            (Some(g), Some((v, ts, ex))) => {
                let exp = if run.cfg.version == 1 { 0 } else { g.expiry };
                (v == g.value.as_ref() || model::json_equal(v, &g.value)) && *ts == g.ts && *ex == exp
            }
            _ => false,
        });
        if admissible {
            continue;
        }
        // classify
        let older = (0..a).any(|j| match (rep(&h[j], ttl, info.now), got) {
            (None, None) => true,
            (Some(g), Some((v, ts, _))) => v == g.value.as_ref() && *ts == g.ts,
            _ => false,
        });
        let desc = match got {
            Some((v, ts, ex)) => format!("value of {} bytes (head {:?}), ts {ts}, expiry {ex}", v.len(), &v[..v.len().min(12)]),
            None => "nothing".to_string(),
        };
        let window: Vec<String> = (a..=l)
            .map(|j| match &h[j].gen {
                Some(g) => format!("step {}: {}B ts {} exp {}", h[j].step, g.value.len(), g.ts, g.expiry),
                None => format!("step {}: absent", h[j].step),
            })
            .collect();
        if older {
            return Err(Verdict {
                signature: "older-than-acked".into(),
                msg: format!("key {}: recovered {desc}, which is a generation older than the last acknowledged one (acked step {}, begun step {}); admissible window {window:?}", model::short(k), info.acked, info.begun),
            });
        }
        return Err(Verdict {
            signature: "not-in-history".into(),
            msg: format!("key {}: recovered {desc}, which is no complete generation of this key inside the window (acked step {}, begun step {}); admissible window {window:?}", model::short(k), info.acked, info.begun),
        });
    }
    if contents.range_len != contents.map.len() || contents.len != contents.map.len() {
        return Err(Verdict {
            signature: "len-mismatch".into(),
            msg: format!("len()={} range query returned {} keys, {} keys readable", contents.len, contents.range_len, contents.map.len()),
        });
    }
    Ok(())
}

// ------------------------------------------------------------------------------------------
// image enumeration
// ------------------------------------------------------------------------------------------

#[derive(Clone, Debug, PartialEq, Eq, Hash)]
pub struct ImageSpec {
    pub p: usize,
    pub subset: Vec<bool>,
    pub torn: Option<(usize, u64)>,
}

fn splitmix(x: &mut u64) -> u64 {
    *x = x.wrapping_add(0x9E3779B97F4A7C15);
    let mut z = *x;
    z = (z ^ (z >> 30)).wrapping_mul(0xBF58476D1CE4E5B9);
    z = (z ^ (z >> 27)).wrapping_mul(0x94D049BB133111EB);
    z ^ (z >> 31)
}

/// Subsets / tearings for `v` volatile writes (DESIGN §4.4); `extra` random masks.
pub fn variants(v: usize, extra: usize, torn: usize, rng: &mut u64) -> Vec<(Vec<bool>, Option<(usize, u64)>)> {
    variants_with(v, extra, torn, 24, rng)
}

/// `flips`: how many of the first un-synced writes are flipped one at a time.
pub fn variants_with(v: usize, extra: usize, torn: usize, flips: usize, rng: &mut u64) -> Vec<(Vec<bool>, Option<(usize, u64)>)> {
    let mut out: Vec<(Vec<bool>, Option<(usize, u64)>)> = Vec::new();
    if v == 0 {
        out.push((Vec::new(), None));
        return out;
    }
    out.push((vec![true; v], None));
    out.push((vec![false; v], None));
    if v > 1 {
        for i in 0..v.min(flips) {
            let mut a = vec![true; v];
            a[i] = false;
            out.push((a, None));
            let mut b = vec![false; v];
            b[i] = true;
            out.push((b, None));
        }
        for _ in 0..extra {
            let m: Vec<bool> = (0..v).map(|_| splitmix(rng) & 1 == 1).collect();
            out.push((m, None));
        }
    }
    if torn > 0 {
        // the most recent write is the one most likely in flight: torn so that everything but
        // its head block / only its head block reached the device, the earlier ones complete
        out.push((vec![true; v], Some((v - 1, !0xFFu64))));
        out.push((vec![true; v], Some((v - 1, 0xFFu64))));
    }
    for t in 0..torn {
        let which = (splitmix(rng) as usize) % v;
        let mask = splitmix(rng) & splitmix(rng) | (1u64 << (splitmix(rng) % 8));
        let others = if t % 2 == 0 { vec![true; v] } else { (0..v).map(|_| splitmix(rng) & 1 == 1).collect() };
        out.push((others, Some((which, mask))));
    }
    out.sort();
    out.dedup();
    out
}

pub struct ImageIter<'a> {
    entries: &'a [Entry],
    base: &'a [u8],
    durable_img: Vec<u8>,
    durable_applied: usize,
}

impl<'a> ImageIter<'a> {
    pub fn new(base: &'a [u8], entries: &'a [Entry]) -> Self {
        ImageIter { entries, base, durable_img: base.to_vec(), durable_applied: 0 }
    }
    /// points must be visited in increasing order
    pub fn image(&mut self, durable: &[usize], volatile: &[usize], subset: &[bool], torn: Option<(usize, u64)>) -> Vec<u8> {
        if durable.len() < self.durable_applied {
            self.durable_img = self.base.to_vec();
            self.durable_applied = 0;
        }
        for &i in &durable[self.durable_applied..] {
            trace::apply_write(&mut self.durable_img, self.entries, i, None);
        }
        self.durable_applied = durable.len();
        let mut img = self.durable_img.clone();
        for (j, &i) in volatile.iter().enumerate() {
            if let Some((tj, mask)) = torn {
                if tj == j {
                    trace::apply_write(&mut img, self.entries, i, Some(mask));
                    continue;
                }
            }
            if subset[j] {
                trace::apply_write(&mut img, self.entries, i, None);
            }
        }
        img
    }
}

#[derive(Default, Clone, Debug)]
pub struct CrashStats {
    pub images: u64,
    pub nontrivial_c02: HashSet<u64>,
    pub nontrivial_c03: HashSet<u64>,
    pub nontrivial_c04: HashSet<u64>,
    pub counters: BTreeMap<String, u64>,
}

impl CrashStats {
    pub fn hit(&mut self, k: &str) {
        *self.counters.entry(k.to_string()).or_insert(0) += 1;
    }
    pub fn merge(&mut self, o: &CrashStats) {
        self.images += o.images;
        self.nontrivial_c02.extend(o.nontrivial_c02.iter());
        self.nontrivial_c03.extend(o.nontrivial_c03.iter());
        self.nontrivial_c04.extend(o.nontrivial_c04.iter());
        for (k, v) in &o.counters {
            *self.counters.entry(k.clone()).or_insert(0) += v;
        }
    }
}

#[derive(Clone, Debug)]
pub struct CrashFailure {
    pub property_hint: &'static str,
    pub signature: String,
    pub msg: String,
    pub spec: ImageSpec,
    pub nested: Vec<ImageSpec>,
}

pub struct Budget {
    /// nested (crash-inside-recovery) images allowed per workload
    pub nested_per_workload: usize,
    pub extra_masks: usize,
    pub torn: usize,
    pub max_points: usize,
    pub c04_depth: usize,
    pub c04_every: usize,
    /// single-write flips per crash point (24 by default; fewer for very large images)
    pub single_flips: usize,
    /// very large images: only crash points of the last flush - right before and after each of
    /// its fsyncs plus `max_points` sampled ones
    pub tail_only: bool,
}

fn overwrote_before_ack(run: &WorkloadRun, acked: i64) -> bool {
    run.hist.values().any(|h| h.iter().filter(|x| x.step >= 0 && x.step < acked).count() >= 2 || h.iter().any(|x| x.step >= 0 && x.step < acked && x.gen.is_none()))
}

/// Enumerate and judge the crash images of one workload. `which`: "C02" | "C03" | "C04".
pub fn explore(run: &WorkloadRun, case: &Case, which: &str, budget: &Budget, stats: &mut CrashStats, wl_fp: u64) -> Option<CrashFailure> {
    let entries = &run.entries;
    if entries.is_empty() {
        return None;
    }
    let mut rng = case.t0_offset ^ 0xC0FFEE;
    let mut it = ImageIter::new(&run.base, entries);
    let mut seen: HashSet<(usize, usize, Vec<bool>, Option<(usize, u64)>, i64, i64)> = HashSet::new();
    // candidate points: all when small, else every write/fsync/ack boundary plus a sample
    let mut points: Vec<usize> = (0..entries.len()).collect();
    if points.len() > budget.max_points {
        let mut keep: Vec<usize> = points
            .iter()
            .copied()
            .filter(|&i| matches!(entries[i], Entry::Mark(Mark::FlushOk { .. }) | Entry::Mark(Mark::DropEnd) | Entry::Mark(Mark::OpenEnd) | Entry::FsyncEnd { .. }))
            .collect();
        while keep.len() < budget.max_points {
            keep.push((splitmix(&mut rng) as usize) % entries.len());
        }
        keep.sort();
        keep.dedup();
        points = keep;
    }
    if budget.tail_only {
        let start = entries.iter().rposition(|e| matches!(e, Entry::Mark(Mark::FlushBegin { .. }))).unwrap_or(0);
        let mut keep: Vec<usize> = Vec::new();
        for p in start..entries.len() {
            if matches!(entries[p], Entry::FsyncEnd { .. } | Entry::Mark(Mark::FlushOk { .. })) {
                keep.push(p);
            }
            if p + 1 < entries.len() && matches!(entries[p + 1], Entry::FsyncBegin) {
                keep.push(p);
            }
        }
        for _ in 0..budget.max_points {
            keep.push(start + (splitmix(&mut rng) as usize) % (entries.len() - start));
        }
        keep.sort();
        keep.dedup();
        points = keep;
    }
    let t0 = T0 + case.t0_offset;
    let mut image_no = 0usize;
    let mut quiet_seen = 0usize;
    let mut nested_left = budget.nested_per_workload;
    for &p in &points {
        let (durable, volatile) = trace::split_at(entries, p);
        let info = point_info(entries, p, t0);
        if which == "C02" && info.acked < 0 {
            continue;
        }
        let nwrites = durable.len() + volatile.len();
        for (subset, torn) in variants_with(volatile.len(), budget.extra_masks, budget.torn, budget.single_flips, &mut rng) {
            if !seen.insert((nwrites, durable.len(), subset.clone(), torn, info.acked, info.begun)) {
                continue;
            }
            let spec = ImageSpec { p, subset: subset.clone(), torn };
            let img = it.image(&durable, &volatile, &subset, torn);
            stats.images += 1;
            image_no += 1;
            let dropped_or_torn = torn.is_some() || subset.iter().any(|b| !*b);
            let fp = env::fingerprint(&(wl_fp, &spec));
            if !volatile.is_empty() && dropped_or_torn {
                stats.nontrivial_c03.insert(fp);
                if info.acked >= 0 && overwrote_before_ack(run, info.acked) {
                    stats.nontrivial_c02.insert(fp);
                }
            }
            if info.in_open {
                stats.hit("point.inside_open");
            }
            if info.acked >= 0 {
                stats.hit("point.after_ack");
            }
            if torn.is_some() {
                stats.hit("image.torn");
            }
            let want_c04 = which == "C04" && image_no % budget.c04_every == 0;
            // a third of the images is recovered much later than the crash: every TTL has passed
            // (an expired newest generation next to an older one must not resurrect the older one)
            let mut info = info.clone();
            if run.cfg.ttl && image_no % 3 == 0 && which != "C12" {
                info.now = info.now.saturating_add(FAR_FUTURE);
                stats.hit("image.recovered_after_all_ttls_passed");
            }
            let opened = open_image(&img, &run.cfg, info.now, want_c04, want_c04);
            match opened {
                Err(e) => {
                    let sig = if e.starts_with("len-mismatch") { "len-mismatch".to_string() } else { format!("open-failed:{}", e.split(':').next().unwrap_or("?")) };
                    stats.hit("open_failed");
                    if which != "C04" && which != "C13" && which != "C05" && which != "C12" {
                        return Some(CrashFailure { property_hint: "C03", signature: sig, msg: format!("crash image cannot be reopened: {e}"), spec, nested: vec![] });
                    }
                }
                Ok(o) => {
                    if which == "C05" {
                        if let Some((sig, msg)) = &o.contents.partition_problem {
                            return Some(CrashFailure { property_hint: "C05", signature: format!("after-recovery-{sig}"), msg: format!("right after recovering a crash image: {msg}"), spec, nested: vec![] });
                        }
                        if let Ok(dec) = layout::decode_image(&img) {
                            if dec.all_records.len() > dec.live.len() {
                                stats.nontrivial_c04.insert(fp);
                                stats.hit("c05.image_with_duplicate_generations");
                            }
                        }
                    } else if which == "C12" {
                        if let Some(msg) = &o.contents.clock_problem {
                            return Some(CrashFailure { property_hint: "C12", signature: "auto-write-after-recovery".into(), msg: format!("after recovering a crash image at virtual time {}: {msg}", info.now), spec, nested: vec![] });
                        }
                        if o.contents.clock_skipped_saturated {
                            stats.hit("c12.probe_skipped_saturated_timestamp");
                        }
                        if o.contents.clock_probed > 0 {
                            stats.hit("c12.images_probed");
                            if o.contents.map.values().any(|(_, ts, _)| *ts > info.now) {
                                stats.nontrivial_c04.insert(fp);
                                stats.hit("c12.recovered_timestamp_ahead_of_clock");
                            }
                        }
                    } else if which == "C13" {
                        if o.contents.memory_usage != o.contents.memory_expected {
                            let dup = o.recovery_entries.len();
                            let _ = dup;
                            return Some(CrashFailure {
                                property_hint: "C13",
                                signature: "memory-accounting-after-recovery".into(),
                                msg: format!("after recovering a crash image memory_usage()={} but the {} recovered records sum to {} bytes", o.contents.memory_usage, o.contents.len, o.contents.memory_expected),
                                spec,
                                nested: vec![],
                            });
                        }
                        // non-trivial: the image held more than one generation of some key
                        if let Ok(dec) = layout::decode_image(&img) {
                            if dec.all_records.len() > dec.live.len() {
                                stats.nontrivial_c04.insert(fp);
                                stats.hit("c13.image_with_duplicate_generations");
                            }
                        }
                    } else if which != "C04" {
                        if let Err(v) = judge(run, &o.contents, &info) {
                            return Some(CrashFailure { property_hint: if v.signature == "older-than-acked" { "C02" } else { "C03" }, signature: v.signature, msg: v.msg, spec, nested: vec![] });
                        }
                    } else if want_c04 {
                        let wrote = o.recovery_entries.iter().any(|e| matches!(e, Entry::Write { .. }));
                        if !wrote {
                            stats.hit("c04.recovery_wrote_nothing");
                            quiet_seen += 1;
                            // plain idempotence of reopening is sampled for these
                            if quiet_seen % 6 != 1 {
                                continue;
                            }
                        } else {
                            stats.nontrivial_c04.insert(fp);
                        }
                        if let Some(f) = check_recovery(&run.cfg, &img, &o, info.now, budget.c04_depth, stats, &spec, &mut rng, budget, &mut nested_left) {
                            return Some(f);
                        }
                    }
                }
            }
        }
    }
    None
}

/// C04 for one image whose first recovery produced `first`.
#[allow(clippy::too_many_arguments)]
pub fn check_recovery(cfg: &Config, img: &[u8], first: &Opened, now: u64, depth: usize, stats: &mut CrashStats, spec: &ImageSpec, rng: &mut u64, budget: &Budget, nested_left: &mut usize) -> Option<CrashFailure> {
    let c1 = &first.contents;
    // (c) repairs never touch a block of a live record, stay inside the device
    for e in &first.recovery_entries {
        if let Entry::Write { off, data, failed: false, .. } = e {
            let s = off / 4096;
            let n = (data.len() as u64).div_ceil(4096);
            if let Some((es, en)) = c1.extents.iter().find(|(es, en)| s < es + en && *es < s + n) {
                return Some(CrashFailure {
                    property_hint: "C04",
                    signature: "repair-touches-live-extent".into(),
                    msg: format!("recovery wrote blocks {s}..{} which overlap the extent {es}+{en} of a record it then reported live", s + n),
                    spec: spec.clone(),
                    nested: vec![],
                });
            }
            if (s + n) as usize * 4096 > img.len() {
                return Some(CrashFailure { property_hint: "C04", signature: "repair-out-of-bounds".into(), msg: format!("recovery wrote beyond the device: block {s}+{n}"), spec: spec.clone(), nested: vec![] });
            }
        }
    }
    // (a) opening the post-recovery file again yields C1
    match open_image(&first.post_image, cfg, now, false, false) {
        Ok(o2) => {
            if o2.contents.map != c1.map {
                return Some(CrashFailure { property_hint: "C04", signature: "reopen-differs".into(), msg: diff_msg("second open of the recovered file", &c1.map, &o2.contents.map), spec: spec.clone(), nested: vec![] });
            }
            stats.hit("c04.reopened_same");
        }
        Err(e) => {
            return Some(CrashFailure { property_hint: "C04", signature: "reopen-failed".into(), msg: format!("the file left by a successful recovery cannot be opened again: {e}"), spec: spec.clone(), nested: vec![] });
        }
    }
    // (b) crash inside recovery's own writes, recover again
    let rec = &first.recovery_entries;
    if depth == 0 || !rec.iter().any(|e| matches!(e, Entry::Write { .. })) {
        return None;
    }
    let mut it = ImageIter::new(img, rec);
    let mut seen = HashSet::new();
    for p in 0..rec.len() {
        let (durable, volatile) = trace::split_at(rec, p);
        for (subset, torn) in variants(volatile.len(), budget.extra_masks.min(2), budget.torn.min(1), rng) {
            if !seen.insert((durable.len() + volatile.len(), durable.len(), subset.clone(), torn)) {
                continue;
            }
            if *nested_left == 0 {
                stats.hit("c04.nested_budget_exhausted");
                return None;
            }
            *nested_left -= 1;
            let nested_img = it.image(&durable, &volatile, &subset, torn);
            let nspec = ImageSpec { p, subset: subset.clone(), torn };
            stats.images += 1;
            stats.hit("c04.nested_image");
            match open_image(&nested_img, cfg, now, depth > 1, depth > 1) {
                Err(e) => {
                    return Some(CrashFailure { property_hint: "C04", signature: "nested-open-failed".into(), msg: format!("after a crash inside recovery's repair writes the file cannot be opened: {e}"), spec: spec.clone(), nested: vec![nspec] });
                }
                Ok(o) => {
                    if o.contents.map != c1.map {
                        return Some(CrashFailure { property_hint: "C04", signature: "nested-contents-differ".into(), msg: diff_msg("recovery restarted after a crash inside its own repairs", &c1.map, &o.contents.map), spec: spec.clone(), nested: vec![nspec] });
                    }
                    if depth > 1 && o.recovery_entries.iter().any(|e| matches!(e, Entry::Write { .. })) {
                        if let Some(mut f) = check_recovery(cfg, &nested_img, &o, now, depth - 1, stats, spec, rng, budget, nested_left) {
                            f.nested.insert(0, nspec);
                            return Some(f);
                        }
                    }
                }
            }
        }
    }
    None
}

fn diff_msg(what: &str, a: &BTreeMap<Vec<u8>, (Vec<u8>, u64, u64)>, b: &BTreeMap<Vec<u8>, (Vec<u8>, u64, u64)>) -> String {
    let mut parts = Vec::new();
    for (k, v) in a {
        match b.get(k) {
            None => parts.push(format!("{} lost", model::short(k))),
            Some(w) if w != v => parts.push(format!("{} changed ({}B ts {} -> {}B ts {})", model::short(k), v.0.len(), v.1, w.0.len(), w.1)),
            _ => {}
        }
    }
    for k in b.keys() {
        if !a.contains_key(k) {
            parts.push(format!("{} appeared", model::short(k)));
        }
    }
    format!("{what} yields different contents than the first successful recovery: {}", parts.join(", "))
}

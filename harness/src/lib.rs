//! Library half of the harness: everything except argument parsing, so the cargo-fuzz targets
//! under /verif/fuzz can reuse the oracles.

pub mod campaign;
pub mod env;
pub mod layout;
pub mod model;
pub mod ops;
pub mod props;
pub mod seq;
pub mod trace;
pub mod crash;
pub mod sched;
pub mod lin;
pub mod conc;

//! Per-key linearizability checker (WGL-style search with memoisation) against the
//! last-writer-wins specification, with exactly the two relaxations C07 permits.

use std::collections::HashSet;

use serde::{Deserialize, Serialize};

use crate::model::ErrKind;

#[derive(Clone, Debug, PartialEq, Eq, Serialize, Deserialize)]
pub enum KOp {
    Get,
    Insert { value: Vec<u8>, ts: Option<u64> },
    Delete { ts: Option<u64> },
    Cas { expect: Vec<u8>, new: Vec<u8>, ts: Option<u64> },
    Incr { delta: i64, ts: Option<u64> },
    InsertIfAbsent { value: Vec<u8> },
    /// JSON patch replacing /n
    Patch { n: i64, ts: Option<u64> },
}

#[derive(Clone, Debug, PartialEq, Eq, Serialize, Deserialize)]
pub enum KRes {
    Unit,
    Bool(bool),
    Bytes(Vec<u8>),
    I64(i64),
    Err(ErrKind),
}

#[derive(Clone, Debug, Serialize, Deserialize)]
pub struct HOp {
    pub thread: u8,
    pub inv: u64,
    pub res: u64,
    pub op: KOp,
    pub result: KRes,
}

/// spec state: value and (for explicitly timestamped keys) its timestamp
type KState = Option<(Vec<u8>, u64)>;

fn ts_of(op: &KOp) -> Option<u64> {
    match op {
        KOp::Insert { ts, .. } | KOp::Delete { ts } | KOp::Cas { ts, .. } | KOp::Incr { ts, .. } | KOp::Patch { ts, .. } => *ts,
        _ => None,
    }
}

/// Did the store accept this call as a modification?
pub fn accepted_modification(h: &HOp) -> bool {
    match (&h.op, &h.result) {
        (KOp::Insert { .. }, KRes::Bool(_)) => true,
        (KOp::Delete { .. }, KRes::Unit) => true,
        (KOp::Cas { .. }, KRes::Bool(true)) => true,
        (KOp::Incr { .. }, KRes::I64(_)) => true,
        (KOp::InsertIfAbsent { .. }, KRes::Bool(true)) => true,
        (KOp::Patch { .. }, KRes::Unit) => true,
        _ => false,
    }
}

pub fn patch_doc(doc: &[u8], n: i64) -> Result<Vec<u8>, ()> {
    let patch = format!("[{{\"op\":\"replace\",\"path\":\"/n\",\"value\":{n}}}]");
    crate::model::apply_patch(doc, patch.as_bytes())
}

/// The sequential specification: next state if `result` is what the spec returns at `state`.
fn spec(state: &KState, op: &KOp, result: &KRes, explicit: bool) -> Option<KState> {
    let newer = |t: Option<u64>, cur_ts: u64| -> bool {
        match (explicit, t) {
            (true, Some(t)) => t > cur_ts,
            _ => true, // automatic timestamps are always newer in the sequential specification
        }
    };
    let t_or = |t: Option<u64>| t.unwrap_or(0);
    match op {
        KOp::Get => match (state, result) {
            (Some((v, _)), KRes::Bytes(b)) if v == b => Some(state.clone()),
            (None, KRes::Err(ErrKind::KeyNotFound)) => Some(None),
            _ => None,
        },
        KOp::Insert { value, ts } => match state {
            None => (*result == KRes::Bool(true)).then(|| Some((value.clone(), t_or(*ts)))),
            Some((_, cur)) => {
                if newer(*ts, *cur) {
                    (*result == KRes::Bool(false)).then(|| Some((value.clone(), t_or(*ts))))
                } else {
                    (*result == KRes::Err(ErrKind::OlderTimestamp)).then(|| state.clone())
                }
            }
        },
        KOp::Delete { ts } => match state {
            None => (*result == KRes::Err(ErrKind::KeyNotFound)).then_some(None),
            Some((_, cur)) => {
                if newer(*ts, *cur) {
                    (*result == KRes::Unit).then_some(None)
                } else {
                    (*result == KRes::Err(ErrKind::OlderTimestamp)).then(|| state.clone())
                }
            }
        },
        KOp::Cas { expect, new, ts } => match state {
            Some((v, cur)) if v == expect => {
                if newer(*ts, *cur) {
                    (*result == KRes::Bool(true)).then(|| Some((new.clone(), t_or(*ts))))
                } else {
                    (*result == KRes::Err(ErrKind::OlderTimestamp)).then(|| state.clone())
                }
            }
            _ => (*result == KRes::Bool(false)).then(|| state.clone()),
        },
        KOp::Incr { delta, ts } => match state {
            None => (*result == KRes::I64(*delta)).then(|| Some((delta.to_le_bytes().to_vec(), t_or(*ts)))),
            Some((v, cur)) => {
                if !newer(*ts, *cur) {
                    return (*result == KRes::Err(ErrKind::OlderTimestamp)).then(|| state.clone());
                }
                if v.len() != 8 {
                    return (*result == KRes::Err(ErrKind::InvalidOperation)).then(|| state.clone());
                }
                let n = i64::from_le_bytes(v.as_slice().try_into().unwrap()).saturating_add(*delta);
                (*result == KRes::I64(n)).then(|| Some((n.to_le_bytes().to_vec(), t_or(*ts))))
            }
        },
        KOp::InsertIfAbsent { value } => match state {
            None => (*result == KRes::Bool(true)).then(|| Some((value.clone(), 0))),
            Some(_) => (*result == KRes::Bool(false)).then(|| state.clone()),
        },
        KOp::Patch { n, ts } => match state {
            None => (*result == KRes::Err(ErrKind::KeyNotFound)).then_some(None),
            Some((v, cur)) => {
                if !newer(*ts, *cur) {
                    return (*result == KRes::Err(ErrKind::OlderTimestamp)).then(|| state.clone());
                }
                match patch_doc(v, *n) {
                    Err(()) => (*result == KRes::Err(ErrKind::JsonPatch)).then(|| state.clone()),
                    Ok(nv) => (*result == KRes::Unit).then(|| Some((nv, t_or(*ts)))),
                }
            }
        },
    }
}

/// May this response be treated as a no-op under the permitted relaxations?
fn excusable(ops: &[HOp], i: usize, explicit: bool, persistent: bool) -> bool {
    let h = &ops[i];
    let overlapping_accept = || ops.iter().enumerate().any(|(j, o)| j != i && accepted_modification(o) && o.inv < h.res && o.res > h.inv);
    match (&h.op, &h.result) {
        (_, KRes::Err(ErrKind::OlderTimestamp)) => {
            match (explicit, ts_of(&h.op)) {
                (true, Some(t)) => ops.iter().enumerate().any(|(j, o)| j != i && accepted_modification(o) && ts_of(&o.op).is_some_and(|t2| t2 >= t) && o.inv < h.res),
                _ => overlapping_accept(),
            }
        }
        (KOp::Cas { .. }, KRes::Bool(false)) => overlapping_accept(),
        (KOp::Get, KRes::Err(ErrKind::StaleExtent)) | (KOp::Incr { .. }, KRes::Err(ErrKind::StaleExtent)) | (KOp::Patch { .. }, KRes::Err(ErrKind::StaleExtent)) => persistent && overlapping_accept(),
        _ => false,
    }
}

pub struct LinResult {
    pub ok: bool,
    pub states_explored: u64,
    pub excuses_available: usize,
}

/// Search for a linearization of `ops` (one key). `initial` is the key's state before the run.
pub fn check_key(ops: &[HOp], explicit: bool, persistent: bool) -> LinResult {
    let n = ops.len();
    assert!(n <= 60, "history too long for the bitmask");
    let exc: Vec<bool> = (0..n).map(|i| excusable(ops, i, explicit, persistent)).collect();
    let mut memo: HashSet<(u64, KState)> = HashSet::new();
    let mut explored = 0u64;
    fn go(ops: &[HOp], exc: &[bool], explicit: bool, done: u64, state: &KState, memo: &mut HashSet<(u64, KState)>, explored: &mut u64) -> bool {
        let n = ops.len();
        if done == (1u64 << n) - 1 {
            return true;
        }
        if !memo.insert((done, state.clone())) {
            return false;
        }
        *explored += 1;
        if *explored > 2_000_000 {
            return true; // search budget exhausted: inconclusive is treated as pass (counted by the caller)
        }
        let min_res = (0..n).filter(|j| done >> j & 1 == 0).map(|j| ops[j].res).min().unwrap();
        for i in 0..n {
            if done >> i & 1 == 1 || ops[i].inv > min_res {
                continue;
            }
            if let Some(next) = spec(state, &ops[i].op, &ops[i].result, explicit) {
                if go(ops, exc, explicit, done | 1 << i, &next, memo, explored) {
                    return true;
                }
            }
            if exc[i] && go(ops, exc, explicit, done | 1 << i, state, memo, explored) {
                return true;
            }
        }
        false
    }
    let ok = go(ops, &exc, explicit, 0, &None, &mut memo, &mut explored);
    LinResult { ok, states_explored: explored, excuses_available: exc.iter().filter(|e| **e).count() }
}

/// Number of pairs of calls on this key that overlapped in real time with at least one accepted modification.
pub fn overlapping_pairs(ops: &[HOp]) -> Vec<(String, String)> {
    let mut out = Vec::new();
    for i in 0..ops.len() {
        for j in i + 1..ops.len() {
            let (a, b) = (&ops[i], &ops[j]);
            if a.thread != b.thread && a.inv < b.res && b.inv < a.res && (accepted_modification(a) || accepted_modification(b)) {
                let name = |o: &KOp| match o {
                    KOp::Get => "get",
                    KOp::Insert { .. } => "insert",
                    KOp::Delete { .. } => "delete",
                    KOp::Cas { .. } => "cas",
                    KOp::Incr { .. } => "incr",
                    KOp::InsertIfAbsent { .. } => "insert_if_absent",
                    KOp::Patch { .. } => "patch",
                };
                let (x, y) = (name(&a.op), name(&b.op));
                out.push(if x <= y { (x.to_string(), y.to_string()) } else { (y.to_string(), x.to_string()) });
            }
        }
    }
    out
}

#[cfg(test)]
mod tests {}

//! C20, clause "reuse of a buffer the kernel may still be writing from": `DiskIO::batch_write`
//! on a deliberately slow device. The device is one end of a Unix datagram socket pair wrapped in a
//! `File`: a write only proceeds when the harness drains the other end, an oversized write is
//! rejected at once (EMSGSIZE, a genuine per-write completion error while its siblings are still
//! queued), and the harness sees, write by write, exactly which bytes the kernel picked up from
//! user memory. AddressSanitizer cannot see reads done by the kernel, so this stage runs in the
//! uninstrumented binary and the oracle is byte authenticity: every datagram the device receives
//! is, byte for byte, one of the payloads handed to `batch_write`.

use std::collections::HashSet;
use std::fs::File;
use std::os::fd::OwnedFd;
use std::os::unix::net::UnixDatagram;
use std::sync::atomic::{AtomicBool, AtomicU64, AtomicUsize, Ordering};
use std::sync::{Arc, Mutex};
use std::time::{Duration, Instant};

use feoxdb::storage::io::DiskIO;
use proptest::prelude::*;
use serde::{Deserialize, Serialize};
use serde_json::json;

use crate::campaign::run_lanes;
use crate::env::{self, Tier};

const MAGIC: u32 = 0xFE0C_DA7A;

#[derive(Clone, Debug, Serialize, Deserialize)]
pub struct Batch {
    /// writes in the batch (more than 128 = several io_uring chunks)
    pub writes: u16,
    /// payload KiB (4..32)
    pub kib: u8,
    /// position (scaled) of a write the device rejects at once (datagram larger than the send
    /// buffer); None = every write is valid
    pub reject_at: Option<u16>,
    /// the device takes nothing for this long once the batch starts
    pub stall_ms: u16,
    /// allocate and fill buffers of the payload size right after the call returned
    pub churn: bool,
}

#[derive(Clone, Debug, Serialize, Deserialize)]
pub struct SlowCase {
    pub batches: Vec<Batch>,
    /// fill the device's queue before the first batch
    pub prefill: bool,
    /// microseconds the device needs per write
    pub device_us: u16,
}

pub fn strategy() -> BoxedStrategy<SlowCase> {
    let batch = (prop_oneof![3 => 2u16..128, 2 => Just(128u16), 1 => 129u16..200], prop_oneof![Just(4u8), Just(16u8), Just(32u8)], proptest::option::weighted(0.5, any::<u16>()), prop_oneof![Just(0u16), 20u16..120, 120u16..400], proptest::bool::weighted(0.8))
        .prop_map(|(writes, kib, reject_at, stall_ms, churn)| Batch { writes, kib, reject_at, stall_ms, churn });
    (proptest::collection::vec(batch, 1..5), any::<bool>(), prop_oneof![Just(0u16), Just(100u16), Just(400u16)]).prop_map(|(batches, prefill, device_us)| SlowCase { batches, prefill, device_us }).boxed()
}

fn payload(batch: u32, index: u32, len: usize) -> Vec<u8> {
    let mut data = Vec::with_capacity(len);
    data.extend_from_slice(&MAGIC.to_le_bytes());
    data.extend_from_slice(&batch.to_le_bytes());
    data.extend_from_slice(&index.to_le_bytes());
    data.extend_from_slice(&(len as u32).to_le_bytes());
    let word = (((batch as u64) << 32) | index as u64 | 0xAB00_0000_0000_0000).to_le_bytes();
    while data.len() < len {
        data.extend_from_slice(&word);
    }
    data.truncate(len);
    data
}

#[derive(Default)]
pub struct SlowNotes {
    pub datagrams: u64,
    pub batches_with_rejected_write: u64,
    pub skipped_no_uring: bool,
}

pub fn judge(case: &SlowCase, notes: &mut SlowNotes) -> Result<(), String> {
    feoxdb::verif::set_thread_force_plain_io(Some(false));
    feoxdb::verif::set_thread_clock(None);
    let (device_end, reader_end) = UnixDatagram::pair().map_err(|e| format!("harness: socketpair: {e}"))?;
    let filler = device_end.try_clone().map_err(|e| format!("harness: clone: {e}"))?;
    let device = File::from(OwnedFd::from(device_end));
    let mut io = match DiskIO::new(Arc::new(device), false) {
        Ok(io) => io,
        Err(e) => return Err(format!("harness: DiskIO::new on a socket failed: {e:?}")),
    };
    let start = Instant::now();
    let done = Arc::new(AtomicBool::new(false));
    let stalled_until_ms = Arc::new(AtomicU64::new(0));
    let received = Arc::new(AtomicUsize::new(0));
    let foreign: Arc<Mutex<Option<String>>> = Arc::new(Mutex::new(None));
    reader_end.set_read_timeout(Some(Duration::from_millis(50))).ok();
    let device_us = case.device_us as u64;
    let reader = {
        let (done, stalled, received, foreign) = (done.clone(), stalled_until_ms.clone(), received.clone(), foreign.clone());
        std::thread::spawn(move || {
            let mut buffer = vec![0u8; 256 * 1024];
            let mut seen: HashSet<(u32, u32)> = HashSet::new();
            loop {
                if (start.elapsed().as_millis() as u64) < stalled.load(Ordering::Acquire) {
                    std::thread::sleep(Duration::from_millis(1));
                    continue;
                }
                match reader_end.recv(&mut buffer) {
                    Ok(len) => {
                        let d = &buffer[..len];
                        let mut ok = false;
                        if len >= 16 && d[..4] == MAGIC.to_le_bytes() {
                            let b = u32::from_le_bytes(d[4..8].try_into().unwrap());
                            let i = u32::from_le_bytes(d[8..12].try_into().unwrap());
                            let l = u32::from_le_bytes(d[12..16].try_into().unwrap()) as usize;
                            if l == len && d == payload(b, i, l).as_slice() {
                                ok = true;
                                seen.insert((b, i));
                            }
                        }
                        if !ok {
                            let mut f = foreign.lock().unwrap();
                            if f.is_none() {
                                *f = Some(format!("{len} bytes starting {:02x?}", &d[..24.min(len)]));
                            }
                        }
                        received.fetch_add(1, Ordering::AcqRel);
                    }
                    Err(_) if done.load(Ordering::Acquire) => break,
                    Err(_) => {}
                }
                if device_us > 0 {
                    std::thread::sleep(Duration::from_micros(device_us));
                }
            }
            seen.len()
        })
    };
    if case.prefill {
        stalled_until_ms.store(start.elapsed().as_millis() as u64 + 30, Ordering::Release);
        filler.set_nonblocking(true).ok();
        let mut i = 0;
        while i < 256 && filler.send(&payload(0, i, 16 * 1024)).is_ok() {
            i += 1;
        }
    }
    drop(filler);
    let mut keep: Vec<Vec<u8>> = Vec::new();
    let mut no_uring = false;
    for (bi, b) in case.batches.iter().enumerate() {
        let len = b.kib.max(1) as usize * 1024;
        let n = b.writes.max(1) as u32;
        let reject = b.reject_at.map(|r| (r as u32 * n) >> 16);
        if b.stall_ms > 0 {
            stalled_until_ms.store(start.elapsed().as_millis() as u64 + b.stall_ms as u64, Ordering::Release);
        }
        let writes: Vec<(u64, Vec<u8>)> = (0..n).map(|i| if reject == Some(i) { (0u64, vec![0x11u8; 1 << 20]) } else { (0u64, payload(bi as u32 + 1, i, len)) }).collect();
        if reject.is_some() {
            notes.batches_with_rejected_write += 1;
        }
        let r = {
            let _g = env::watch("batch_write on the slow device");
            io.batch_write(writes)
        };
        if let Err(e) = &r {
            if e.to_string().contains("os error 29") {
                // ESPIPE: no io_uring here, DiskIO fell back to pwrite at an offset
                no_uring = true;
                break;
            }
        }
        if b.churn {
            // ordinary allocations elsewhere in the process: whatever batch_write released is reused
            for _ in 0..1024 {
                keep.push(vec![0xEEu8; len]);
            }
            if keep.len() > 8192 {
                keep.drain(..4096);
            }
        }
    }
    // let the device work everything off
    let t0 = Instant::now();
    let mut last = received.load(Ordering::Acquire);
    let mut quiet = Instant::now();
    while t0.elapsed() < Duration::from_secs(20) {
        std::thread::sleep(Duration::from_millis(20));
        let now = received.load(Ordering::Acquire);
        let stalled = (start.elapsed().as_millis() as u64) < stalled_until_ms.load(Ordering::Acquire);
        if now != last || stalled {
            last = now;
            quiet = Instant::now();
        } else if quiet.elapsed() > Duration::from_millis(300) {
            break;
        }
    }
    done.store(true, Ordering::Release);
    let _ = reader.join();
    io.shutdown();
    drop(keep);
    notes.datagrams = received.load(Ordering::Acquire) as u64;
    notes.skipped_no_uring = no_uring;
    if let Some(f) = foreign.lock().unwrap().take() {
        return Err(format!("[kernel-read-released-buffer] the device received a write whose bytes were never handed to batch_write ({f}): a buffer was released (and reused) while its write was still queued in the kernel"));
    }
    Ok(())
}

pub fn campaign(tier: Tier, seed: u64) -> (i32, serde_json::Value) {
    let cases = Arc::new(AtomicU64::new(0));
    let datagrams = Arc::new(AtomicU64::new(0));
    let rejected = Arc::new(AtomicU64::new(0));
    let skipped = Arc::new(AtomicU64::new(0));
    let nt = Arc::new(Mutex::new(HashSet::<u64>::new()));
    let (c2, d2, r2, s2, n2) = (cases.clone(), datagrams.clone(), rejected.clone(), skipped.clone(), nt.clone());
    let check = move |case: &SlowCase, counting: bool| -> Result<(), String> {
        let mut notes = SlowNotes::default();
        let r = judge(case, &mut notes);
        if counting {
            c2.fetch_add(1, Ordering::Relaxed);
            d2.fetch_add(notes.datagrams, Ordering::Relaxed);
            r2.fetch_add(notes.batches_with_rejected_write, Ordering::Relaxed);
            if notes.skipped_no_uring {
                s2.fetch_add(1, Ordering::Relaxed);
            } else if notes.batches_with_rejected_write > 0 && case.batches.len() > 1 {
                n2.lock().unwrap().insert(env::fnv(format!("{case:?}").as_bytes()));
            }
        }
        r
    };
    let found = run_lanes(strategy(), tier.pick(96, 1500), 12, seed ^ 0xC20C, env::threads().min(8), check);
    let mut code = 0;
    let mut failure = serde_json::Value::Null;
    if let Some((case, msg)) = found {
        let sig = msg.strip_prefix('[').and_then(|m| m.split(']').next()).unwrap_or("slow-device").to_string();
        if sig.starts_with("harness") || !msg.starts_with('[') {
            eprintln!("fxv: C20 (slow device): harness problem: {msg}");
            code = 2;
        } else {
            let replay = json!({"property": "C20", "engine": "slow_device", "signature": sig, "message": msg, "case": serde_json::to_value(&case).unwrap()});
            if !env::report_violation("C20", &sig, &replay) {
                code = 1;
                eprintln!("fxv: C20 (slow device): {msg}");
            }
        }
        failure = json!({"signature": sig, "message": msg});
    }
    let summary = json!({
        "executions": cases.load(Ordering::Relaxed),
        "writes_seen_by_the_device": datagrams.load(Ordering::Relaxed),
        "batches_with_a_rejected_write": rejected.load(Ordering::Relaxed),
        "cases_without_io_uring": skipped.load(Ordering::Relaxed),
        "distinct_nontrivial": nt.lock().unwrap().len(),
        "rule": "proptest-generated sequences of 1-4 DiskIO::batch_write calls (2-200 writes of 4/16/32 KiB: below, at and above one io_uring chunk of 128) on a slow device - one end of a Unix datagram socket pair wrapped in a File, drained by the harness with generated stalls (0-400 ms) and per-write latency, optionally with a full queue at the start; in half of the batches one write is rejected by the device at once (datagram larger than the send buffer: a genuine per-write completion error while its siblings are queued). After each call returns, buffers of the payload size are allocated and filled with a foreign pattern. Oracle: every datagram the device receives is byte for byte one of the payloads handed to batch_write (run in the uninstrumented binary: AddressSanitizer does not see reads done by the kernel). Non-trivial: a case with a rejected write followed by another batch on the same DiskIO.",
        "failure": failure,
    });
    (code, summary)
}

pub fn replay(path: &str) -> i32 {
    let doc: serde_json::Value = serde_json::from_str(&std::fs::read_to_string(path).expect("read")).expect("json");
    let case: SlowCase = serde_json::from_value(doc["case"].clone()).expect("case");
    for _ in 0..5 {
        if let Err(e) = judge(&case, &mut SlowNotes::default()) {
            println!("replay: {e}");
            println!("VIOLATION property=C20 replay={path}");
            return 1;
        }
    }
    println!("replay: the device only ever received submitted bytes on this tree (5 executions)");
    0
}

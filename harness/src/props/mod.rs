pub mod c06;
pub mod c17;
pub mod crashprops;
pub mod seqprops;

use crate::env::Tier;

pub fn dispatch(id: &str, tier: Tier, seed: u64, replay: Option<&str>) -> i32 {
    match id {
        "C01" | "C05" | "C10" | "C11" | "C12" | "C13" | "C14" | "C16" => seqprops::run(id, tier, seed, replay),
        "C06" => c06::run(tier, seed, replay),
        "C17" => c17::run(tier, seed, replay),
        "C02" => crashprops::run("C02", tier, seed, replay),
        "C03" => crashprops::run("C03", tier, seed, replay),
        "C04" => crashprops::run("C04", tier, seed, replay),
        _ => {
            eprintln!("fxv: no check registered for {id}");
            64
        }
    }
}

pub mod bigdev;
pub mod c06;
pub mod c09;
pub mod c15;
pub mod c16unit;
pub mod c17;
pub mod c19;
pub mod c20;
pub mod c20j;
pub mod c20k;
pub mod c20u;
pub mod concprops;
pub mod crashprops;
pub mod seqprops;
pub mod synthrec;

use crate::env::Tier;

pub fn dispatch(id: &str, tier: Tier, seed: u64, replay: Option<&str>) -> i32 {
    match id {
        "C01" => seqprops::run(id, tier, seed, replay),
        "C10" => {
            if let Some(path) = replay {
                let text = std::fs::read_to_string(path).unwrap_or_default();
                if text.contains("\"big_device\"") {
                    return bigdev::replay(path);
                }
                return seqprops::run(id, tier, seed, replay);
            }
            let code = seqprops::run(id, tier, seed, None);
            let (bcode, summary) = bigdev::campaign("C10", tier, seed);
            fold_into_evidence("C10", "devices_beyond_4gib", summary, "cases", bcode);
            code.max(bcode)
        }
        "C10-BIG" => {
            // development entry: the big-device stage alone (writes no evidence)
            let (code, summary) = bigdev::campaign("C10", tier, seed);
            println!("{}", serde_json::to_string_pretty(&summary).unwrap_or_default());
            code
        }
        "C12" => {
            if let Some(path) = replay {
                let text = std::fs::read_to_string(path).unwrap_or_default();
                if text.contains("\"crash_accounting\"") {
                    return crashprops::replay_accounting(path);
                }
                if text.contains("\"synth_clock\"") {
                    return crashprops::replay_synth_clock(path);
                }
                return seqprops::run(id, tier, seed, replay);
            }
            let code = seqprops::run(id, tier, seed, None);
            let (ucode, summary) = crashprops::clock_campaign(tier, seed);
            fold_into_evidence("C12", "automatic_writes_after_recovery", summary, "images", ucode);
            code.max(ucode)
        }
        "C05" => {
            if let Some(path) = replay {
                let text = std::fs::read_to_string(path).unwrap_or_default();
                if text.contains("\"crash_accounting\"") {
                    return crashprops::replay_accounting(path);
                }
                if text.contains("\"fault_partition\"") {
                    return c09::replay_healed_partition(path);
                }
                return seqprops::run(id, tier, seed, replay);
            }
            let code = seqprops::run(id, tier, seed, None);
            let (ucode, summary) = crashprops::partition_campaign(tier, seed);
            fold_into_evidence("C05", "partition_after_recovery", summary, "images", ucode);
            let (fcode, fsummary) = c09::healed_partition_campaign(tier, seed);
            fold_into_evidence("C05", "partition_after_an_outage", fsummary, "plans", fcode);
            code.max(ucode).max(fcode)
        }
        "C14" => {
            if let Some(path) = replay {
                let text = std::fs::read_to_string(path).unwrap_or_default();
                if text.contains("conc:C14D") {
                    return concprops::replay_sub("C14D", path);
                }
                return seqprops::run(id, tier, seed, replay);
            }
            let code = seqprops::run(id, tier, seed, None);
            let (ucode, ev) = concprops::run_campaign("C14D", "C14", tier, seed);
            fold_into_evidence("C14", "concurrent_scans", concprops::sub_summary(&ev), "executions", ucode);
            code.max(ucode)
        }
        "C13" => {
            if let Some(path) = replay {
                let text = std::fs::read_to_string(path).unwrap_or_default();
                if text.contains("\"crash_accounting\"") {
                    return crashprops::replay_accounting(path);
                }
                if text.contains("conc:C13D") {
                    return concprops::replay_sub("C13D", path);
                }
                return seqprops::run(id, tier, seed, replay);
            }
            let code = seqprops::run(id, tier, seed, None);
            let (ucode, summary) = crashprops::accounting_campaign(tier, seed);
            fold_into_evidence("C13", "recovery_of_crash_images", summary, "images", ucode);
            let (dcode, dev) = concprops::run_campaign("C13D", "C13", tier, seed);
            fold_into_evidence("C13", "concurrent_writers_against_a_limit", concprops::sub_summary(&dev), "executions", dcode);
            code.max(ucode).max(dcode)
        }
        "C11" => {
            if let Some(path) = replay {
                let text = std::fs::read_to_string(path).unwrap_or_default();
                if text.contains("\"synth_recovery\"") {
                    return synthrec::replay(path);
                }
                if text.contains("\"mass_retirement\"") {
                    return synthrec::replay_mass(path);
                }
                if text.contains("conc:C11D") {
                    return concprops::replay_sub("C11D", path);
                }
                return seqprops::run(id, tier, seed, replay);
            }
            let code = seqprops::run(id, tier, seed, None);
            let (ucode, summary) = synthrec::campaign("C11", tier, seed);
            fold_into_evidence("C11", "recovery_of_synthesised_images", summary, "images", ucode);
            let (mcode, msummary) = synthrec::mass_campaign("C11", tier, seed ^ 0x11);
            fold_into_evidence("C11", "mass_retirement", msummary, "images", mcode);
            let ucode = ucode.max(mcode);
            let (dcode, dev) = concprops::run_campaign("C11D", "C11", tier, seed);
            fold_into_evidence("C11", "sweeper_racing_writers", concprops::sub_summary(&dev), "executions", dcode);
            code.max(ucode).max(dcode)
        }
        "C16" => {
            if let Some(path) = replay {
                let text = std::fs::read_to_string(path).unwrap_or_default();
                if text.contains("\"cache_unit\"") {
                    return c16unit::replay(path);
                }
                if text.contains("conc:C16D") {
                    return concprops::replay_sub("C16D", path);
                }
                if text.contains("conc:C16S") {
                    return concprops::replay_sub("C16S", path);
                }
                return seqprops::run(id, tier, seed, replay);
            }
            if let Some(path) = replay {
                let _ = path;
            }
            let code = seqprops::run(id, tier, seed, None);
            let (dcode, dev) = concprops::run_campaign("C16D", "C16", tier, seed);
            fold_into_evidence("C16", "concurrent_readers_cache_on", concprops::sub_summary(&dev), "executions", dcode);
            let (scode, sev) = concprops::run_campaign("C16S", "C16", tier, seed);
            fold_into_evidence("C16", "reader_finishing_after_an_overwrite", concprops::sub_summary(&sev), "executions", scode);
            let code = code.max(dcode).max(scode);
            let (ucode, summary) = c16unit::campaign(tier, seed);
            // fold the unit campaign into the evidence written by the differential campaign
            let path = crate::env::verif_root().join("evidence/C16.json");
            if let Ok(text) = std::fs::read_to_string(&path) {
                if let Ok(mut doc) = serde_json::from_str::<serde_json::Value>(&text) {
                    let add = summary["sequences"].as_u64().unwrap_or(0);
                    let ntadd = summary["distinct_nontrivial"].as_u64().unwrap_or(0);
                    if let Some(c) = doc.get_mut("coverage") {
                        c["evaluations"] = serde_json::json!(c["evaluations"].as_u64().unwrap_or(0) + add);
                        c["distinct_nontrivial"] = serde_json::json!(c["distinct_nontrivial"].as_u64().unwrap_or(0) + ntadd);
                        c["cache_unit"] = summary;
                    }
                    if ucode == 1 {
                        doc["violations"] = serde_json::json!(doc["violations"].as_u64().unwrap_or(0) + 1);
                    }
                    let _ = std::fs::write(&path, serde_json::to_vec_pretty(&doc).unwrap());
                }
            }
            code.max(ucode)
        }
        "C06" => c06::run(tier, seed, replay),
        "C17" => c17::run(tier, seed, replay),
        "C09" => c09::run(tier, seed, replay),
        "C19" => c19::run(tier, seed, replay),
        "C07" => {
            if let Some(path) = replay {
                let text = std::fs::read_to_string(path).unwrap_or_default();
                if text.contains("conc:C07M") {
                    return concprops::replay_sub("C07M", path);
                }
                return concprops::run("C07", tier, seed, replay);
            }
            let code = concprops::run("C07", tier, seed, None);
            let (mcode, mev) = concprops::run_campaign("C07M", "C07", tier, seed);
            fold_into_evidence("C07", "explicit_future_timestamps_racing_automatic_ones", concprops::sub_summary(&mev), "executions", mcode);
            code.max(mcode)
        }
        "C08" => {
            if let Some(path) = replay {
                let text = std::fs::read_to_string(path).unwrap_or_default();
                if text.contains("conc:C08S") {
                    return concprops::replay_sub("C08S", path);
                }
                return concprops::run("C08", tier, seed, replay);
            }
            let code = concprops::run("C08", tier, seed, None);
            let (scode, sev) = concprops::run_campaign("C08S", "C08", tier, seed);
            fold_into_evidence("C08", "reader_pinned_while_the_generation_goes_away", concprops::sub_summary(&sev), "executions", scode);
            code.max(scode)
        }
        "C18" => concprops::run("C18", tier, seed, replay),
        "C20" => {
            if let Some(path) = replay {
                let text = std::fs::read_to_string(path).unwrap_or_default();
                if text.contains("\"slow_device\"") {
                    return c20k::replay(path);
                }
                if text.contains("\"direct_io_default_allocator\"") {
                    return c20j::replay(path);
                }
                if text.contains("\"public_utilities\"") {
                    return c20u::replay(path);
                }
            }
            c20::run(tier, seed, replay)
        }
        "C20U" => {
            // the public-utility stage of C20 alone (child of the AddressSanitizer run)
            let journal = std::env::var("FXV_C20U_JOURNAL").unwrap_or_else(|_| "/dev/null".into());
            c20u::child(tier, seed, &journal)
        }
        "C20J" => {
            // the default-allocator stage of C20 alone (run by the uninstrumented binary)
            let (code, summary) = c20j::campaign(tier, seed);
            println!("C20J-SUMMARY {}", serde_json::to_string(&summary).unwrap_or_default());
            code
        }
        "C20K" => {
            // the slow-device stage of C20 alone; prints its summary as one JSON line (used by the
            // ASan run of C20, which starts this uninstrumented binary for it)
            let (code, summary) = c20k::campaign(tier, seed);
            println!("C20K-SUMMARY {}", serde_json::to_string(&summary).unwrap_or_default());
            code
        }
        "TRACE-CHECK" => {
            // development entry: re-execute the workload of a crash replay and check the write-ahead
            // rule on its trace: every retirement-marker write lies inside an extent listed by the
            // newest ACTIVE journal write, and an fsync completed between that journal write and it
            let path = replay.expect("--replay <file>");
            let doc: serde_json::Value = serde_json::from_str(&std::fs::read_to_string(path).expect("read")).expect("json");
            let case: crate::ops::Case = serde_json::from_value(doc["case"].clone()).expect("case");
            let run = crate::crash::run_workload(&case);
            crate::env::wait_reaper();
            println!("trace: {} entries, usable {}", run.entries.len(), run.usable);
            let mut journal: Option<(usize, u64, bool, Vec<(u64, u64)>)> = None; // (index, generation, active, extents)
            let mut synced_since_journal = false;
            let (mut markers, mut uncovered, mut unsynced, mut writes_no_journal) = (0u64, 0u64, 0u64, 0u64);
            for (i, e) in run.entries.iter().enumerate() {
                match e {
                    crate::trace::Entry::Write { off, data, failed: false, .. } => {
                        let b = off / 4096;
                        if (1..7).contains(&b) {
                            let slot = crate::layout::decode_slot(&data[..], u64::MAX / 8192);
                            if let crate::layout::Slot::Valid { generation, active, extents, .. } = slot {
                                journal = Some((i, generation, active, extents));
                                synced_since_journal = false;
                            }
                        } else if b >= 16 && data.starts_with(b"\0DELETED") {
                            markers += 1;
                            let blocks = (data.len() / 4096) as u64;
                            match &journal {
                                Some((ji, g, true, ext)) => {
                                    if !ext.iter().any(|(s, n)| *s <= b && b + blocks <= s + n) {
                                        uncovered += 1;
                                        if uncovered <= 5 {
                                            println!("entry {i}: marker write {b}+{blocks} is not covered by the ACTIVE journal gen {g} written at entry {ji} ({} entries)", ext.len());
                                        }
                                    } else if !synced_since_journal {
                                        unsynced += 1;
                                        if unsynced <= 5 {
                                            println!("entry {i}: marker write {b}+{blocks}: no fsync completed since its journal gen {g} was written at entry {ji}");
                                        }
                                    }
                                }
                                other => {
                                    writes_no_journal += 1;
                                    if writes_no_journal <= 5 {
                                        println!("entry {i}: marker write {b}+{blocks} while the newest journal write is {:?}", other.as_ref().map(|(ji, g, a, e)| (*ji, *g, *a, e.len())));
                                    }
                                }
                            }
                        }
                    }
                    crate::trace::Entry::FsyncEnd { ok: true } => synced_since_journal = true,
                    _ => {}
                }
            }
            println!("marker writes {markers}; uncovered by the active journal {uncovered}; journal not yet synced {unsynced}; no active journal {writes_no_journal}");
            0
        }
        "DECODE-REPLAY" => {
            // development entry: decode the saved image of a crash replay with the independent codec
            let path = replay.expect("--replay <file>");
            let doc: serde_json::Value = serde_json::from_str(&std::fs::read_to_string(path).expect("read")).expect("json");
            let img = miniz_oxide::inflate::decompress_to_vec(&crashprops::unhex(doc["image_deflate_hex"].as_str().unwrap_or(""))).expect("inflate");
            println!("image: {} blocks", img.len() / 4096);
            match crate::layout::decode_image(&img) {
                Err(e) => println!("codec: undecodable: {e}"),
                Ok(dec) => {
                    println!("codec: meta v{} gen {}; {} live keys, {} records; journal {:?}", dec.meta.version, dec.meta.generation, dec.live.len(), dec.all_records.len(), crate::layout::journal_winner(&dec.slots).map(|(i, g, e)| (i, g, e.len(), e.iter().take(6).cloned().collect::<Vec<_>>())));
                    for p in dec.problems.iter().take(20) {
                        println!("codec problem: {p}");
                    }
                    println!("{} problems", dec.problems.len());
                    println!("slots: {:?}", dec.slots.iter().map(|s| match s { crate::layout::Slot::Valid { generation, active, extents, .. } => format!("valid gen {generation} active {active} entries {} first {:?}", extents.len(), extents.iter().take(4).collect::<Vec<_>>()), other => format!("{other:?}") }).collect::<Vec<_>>());
                    if let Ok(range) = std::env::var("FXV_DUMP_BLOCKS") {
                        let mut it = range.split('-').map(|x| x.parse::<usize>().unwrap_or(0));
                        let (a, b) = (it.next().unwrap_or(0), it.next().unwrap_or(0));
                        for blk in a..=b {
                            for sec in 0..8 {
                                let off = blk * 4096 + sec * 512;
                                let bytes = &img[off..off + 512];
                                let kind = if bytes.iter().all(|x| *x == 0) { "zero".to_string() } else { format!("{:02x?}", &bytes[..20]) };
                                println!("block {blk} sector {sec}: {kind}");
                            }
                        }
                    }
                }
            }
            0
        }
        "C04-MASS" => {
            // development entry: the mass-retirement stage of C04 alone (writes no evidence)
            let (code, summary) = synthrec::mass_campaign("C04", tier, seed);
            println!("{}", serde_json::to_string_pretty(&summary).unwrap_or_default());
            code
        }
        "C15" => c15::run(tier, seed, replay),
        "C02" => crashprops::run("C02", tier, seed, replay),
        "C03" => {
            if let Some(path) = replay {
                let text = std::fs::read_to_string(path).unwrap_or_default();
                if text.contains("\"synth_recovery\"") {
                    return synthrec::replay(path);
                }
                return crashprops::run("C03", tier, seed, replay);
            }
            let code = crashprops::run("C03", tier, seed, None);
            // states a crash can leave behind, built directly by the codec (duplicates, pending
            // markers, active journals, expired winners, runs of hundreds of keys): every key
            // exposed is the newest complete generation and len() == keys exposed
            let (ucode, summary) = synthrec::campaign("C03", tier, seed ^ 0x33);
            fold_into_evidence("C03", "recovery_of_synthesised_images", summary, "images", ucode);
            code.max(ucode)
        }
        "C04" => {
            if let Some(path) = replay {
                let text = std::fs::read_to_string(path).unwrap_or_default();
                if text.contains("\"mass_retirement\"") {
                    return synthrec::replay_mass(path);
                }
                return crashprops::run("C04", tier, seed, replay);
            }
            let code = crashprops::run("C04", tier, seed, None);
            let (mcode, summary) = synthrec::mass_campaign("C04", tier, seed);
            fold_into_evidence("C04", "mass_retirement", summary, "images", mcode);
            code.max(mcode)
        }
        _ => {
            eprintln!("fxv: no check registered for {id}");
            64
        }
    }
}

/// Add a secondary campaign's summary (and its counts) to an evidence file already written.
pub fn fold_into_evidence(id: &str, key: &str, summary: serde_json::Value, count_key: &str, code: i32) {
    let path = crate::env::verif_root().join(format!("evidence/{id}.json"));
    if let Ok(text) = std::fs::read_to_string(&path) {
        if let Ok(mut doc) = serde_json::from_str::<serde_json::Value>(&text) {
            let add = summary[count_key].as_u64().unwrap_or(0);
            let ntadd = summary["distinct_nontrivial"].as_u64().unwrap_or(0);
            if let Some(c) = doc.get_mut("coverage") {
                c["evaluations"] = serde_json::json!(c["evaluations"].as_u64().unwrap_or(0) + add);
                c["distinct_nontrivial"] = serde_json::json!(c["distinct_nontrivial"].as_u64().unwrap_or(0) + ntadd);
                c[key] = summary;
            }
            if code == 1 {
                doc["violations"] = serde_json::json!(doc["violations"].as_u64().unwrap_or(0) + 1);
            }
            let _ = std::fs::write(&path, serde_json::to_vec_pretty(&doc).unwrap());
        }
    }
}

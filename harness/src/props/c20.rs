//! C20: the engine-D programs (linearizability, racing readers, concurrent scans, contention /
//! shutdown / failing device) and the engine-C fault plans re-executed in a binary built with
//! AddressSanitizer (nightly, -Zsanitizer=address, system allocator). Oracle: no sanitizer
//! report, no abnormal termination.

use std::process::{Command, Stdio};

use serde_json::json;

use crate::env::{self, Evidence, Tier};
use crate::props::concprops;

pub fn run(tier: Tier, seed: u64, replay: Option<&str>) -> i32 {
    if let Some(path) = replay {
        let doc: serde_json::Value = serde_json::from_str(&std::fs::read_to_string(path).expect("read")).expect("json");
        println!("replay: sanitizer findings are reproduced by re-running the campaign `{}` with VERIF_SEED={} in the ASan build (./check C20)", doc["campaign"], doc["seed"]);
        println!("{}", doc["report"].as_str().unwrap_or(""));
        return 0;
    }
    let started = std::time::Instant::now();
    if std::env::var("FXV_ASAN").is_err() {
        eprintln!("fxv: C20 must be run through ./check (it needs the AddressSanitizer build)");
        return 2;
    }
    let dir = env::scratch_dir().join("asan");
    let _ = std::fs::create_dir_all(&dir);
    std::env::set_var("FXV_ASAN_DIR", &dir);
    let mut ev = Evidence::new(
        "C20",
        tier,
        seed,
        "exploration",
        "the generated concurrent programs of C07 (2-4 threads on shared keys), C08/C16 (readers racing writers, flush, retirement, block reuse, cache eviction), C14 (range scans racing creation/deletion next to stable keys, > 256 keys for the re-pin path) and C18 (contention, shutdown with calls in flight, sweeper holding the last reference, full device, device failing from the k-th I/O call on both I/O paths), plus the fault-plan workloads of C09 (failed writes/fsyncs, io_uring submissions failing as a whole, bursts of > 1024 buffered entries), all re-executed in a harness + feoxdb build instrumented with AddressSanitizer (cargo +nightly, -Zsanitizer=address, system allocator, detect_leaks=0 because in-flight buffers are leaked on purpose). Two last stages run uninstrumented: DiskIO::batch_write sequences on a slow device (socket pair) whose bytes the harness compares with the submitted payloads (see campaigns.slow_device.rule), and direct-I/O read/write sequences in a child process whose global allocator is feoxdb's default jemalloc (campaigns.direct_io_default_allocator.rule). Oracle: no AddressSanitizer report in any worker (abort_on_error, per-worker log files) and no abnormal termination; the functional oracles of those checks stay on. Non-trivial: executions that are non-trivial by the rules of the underlying campaigns (overlapping calls on a key, device reads overlapping modifications, scans overlapping writers, three threads inside the store / full device / consumed fault). Evaluations = program executions under the sanitizer.",
    );
    ev.started = started;
    ev.assumptions = vec!["AddressSanitizer sees only executed schedules; data races without a memory-safety symptom are outside its reach".into()];
    let mut code = 0;
    let mut subs = serde_json::Map::new();
    let scales = [("C07", tier.pick(30, 60)), ("C08", tier.pick(30, 60)), ("C14D", tier.pick(50, 60)), ("C18", tier.pick(50, 60))];
    for (id, scale) in scales {
        std::env::set_var("FXV_CASE_SCALE", scale.to_string());
        let (c, sub) = concprops::run_campaign(id, "C20", tier, seed);
        ev.evaluations += sub.evaluations;
        for x in &sub.nontrivial {
            ev.nontrivial.insert(*x ^ env::fnv(id.as_bytes()));
        }
        if let Some(s) = sub.samples.first() {
            ev.sample(json!({"campaign": id, "case": s}));
        }
        subs.insert(id.to_string(), json!({"executions": sub.evaluations, "distinct_nontrivial": sub.nontrivial.len(), "exit": c, "failure": sub.extra.get("failure")}));
        if c == 1 {
            // functional failures of the sub-campaign are reported by their own property's check;
            // here only sanitizer findings (already printed as VIOLATION property=C20) count
            if sub.extra.get("failure").and_then(|f| f.get("signature")).and_then(|s| s.as_str()) == Some("asan-report") {
                code = 1;
                ev.violations += 1;
            }
        } else if c == 2 && code == 0 {
            code = 2;
        }
    }
    std::env::remove_var("FXV_CASE_SCALE");
    // fault plans (engine C) in a child so its evidence goes to a scratch root
    let scratch_root = env::scratch_dir().join("c09-under-asan");
    let _ = std::fs::create_dir_all(&scratch_root);
    let exe = std::env::current_exe().expect("exe");
    let out = Command::new(&exe)
        .args(["C09", "--tier", tier.name()])
        .env("FXV_ROOT", &scratch_root)
        .env("FXV_C09_SCALE", tier.pick("25", "40"))
        .env("VERIF_SEED", seed.to_string())
        .env("ASAN_OPTIONS", format!("detect_leaks=0:abort_on_error=1:log_path={}/asan-C09", dir.display()))
        .stdout(Stdio::piped())
        .stderr(Stdio::null())
        .output();
    let mut c09 = json!({"ran": false});
    if let Ok(o) = out {
        let ok_exit = o.status.code().is_some();
        let evp = scratch_root.join("evidence/C09.json");
        let sub: serde_json::Value = std::fs::read_to_string(&evp).ok().and_then(|t| serde_json::from_str(&t).ok()).unwrap_or_default();
        let n = sub["coverage"]["evaluations"].as_u64().unwrap_or(0);
        let nt = sub["coverage"]["distinct_nontrivial"].as_u64().unwrap_or(0);
        ev.evaluations += n;
        for i in 0..nt {
            ev.nontrivial.insert(0xC09_0000 + i);
        }
        c09 = json!({"ran": true, "executions": n, "distinct_nontrivial": nt, "exit": o.status.code()});
        let mut reports = Vec::new();
        if let Ok(rd) = std::fs::read_dir(&dir) {
            for e in rd.flatten() {
                if e.file_name().to_string_lossy().starts_with("asan-C09") {
                    reports.push(std::fs::read_to_string(e.path()).unwrap_or_default());
                }
            }
        }
        if !reports.is_empty() || !ok_exit {
            let head: String = reports.first().map(|r| r.lines().take(80).collect::<Vec<_>>().join("\n")).unwrap_or_else(|| format!("fault-plan run ended abnormally: {:?}", o.status));
            let doc = json!({"property": "C20", "engine": "fault", "signature": "asan-report", "message": head.lines().find(|l| l.contains("AddressSanitizer")).unwrap_or("abnormal termination"), "campaign": "C09", "seed": seed, "report": head});
            if !env::report_violation("C20", "asan-report", &doc) {
                code = 1;
                ev.violations += 1;
                eprintln!("fxv: C20 (fault plans): sanitizer report or abnormal termination");
            }
        }
    }
    subs.insert("C09".into(), c09);
    // public helpers outside the store (hashes, AlignedBuffer, apply_json_patch) with inputs whose
    // neighbourhood is poisoned (exact heap allocations) or inaccessible (guard pages): child of
    // this instrumented binary, the case about to run is journaled
    let journal = dir.join("c20u-journal.json");
    let out = Command::new(&exe)
        .args(["C20U", "--tier", tier.name()])
        .env("FXV_C20U_JOURNAL", &journal)
        .env("VERIF_SEED", seed.to_string())
        .env("ASAN_OPTIONS", format!("detect_leaks=0:abort_on_error=1:log_path={}/asan-C20U", dir.display()))
        .stdout(Stdio::piped())
        .stderr(Stdio::null())
        .output();
    let mut util = json!({"ran": false});
    if let Ok(o) = out {
        let text = String::from_utf8_lossy(&o.stdout).to_string();
        if let Some(l) = text.lines().find(|l| l.starts_with("C20U-SUMMARY ")) {
            util = serde_json::from_str(&l["C20U-SUMMARY ".len()..]).unwrap_or_default();
            let n = util["executions"].as_u64().unwrap_or(0);
            ev.evaluations += n;
            for i in 0..util["keys_with_a_partial_last_16_byte_block"].as_u64().unwrap_or(0).min(5000) {
                ev.nontrivial.insert(0xC20E_0000 + i);
            }
        }
        util["rule"] = json!("proptest-generated inputs for the safe public helpers outside the store - utils::hash::{hash_key, murmur3_32, simd::hash_key_aes_safe, MurmurHasher} on keys of 0-5000 bytes (lengths around multiples of 16) held in exactly sized heap allocations, at generated offsets inside larger ones, and ending on the last byte of a page whose successor is PROT_NONE; utils::allocator::AlignedBuffer (capacity 0-20000, set_len within capacity, write/read-back, clear, drop); utils::json_patch::apply_json_patch on exactly sized documents and patches - executed in a child of the AddressSanitizer build. Oracle: no sanitizer report, no signal, a hash depends on the bytes only (equal for every placement), buffer accounting returns to its baseline, patch results equal the reference application. Non-trivial: a key whose length is not a multiple of 16.");
        let mut reports = Vec::new();
        if let Ok(rd) = std::fs::read_dir(&dir) {
            for e in rd.flatten() {
                if e.file_name().to_string_lossy().starts_with("asan-C20U") {
                    reports.push(std::fs::read_to_string(e.path()).unwrap_or_default());
                }
            }
        }
        let abnormal = o.status.code().is_none() || !reports.is_empty();
        let functional = o.status.code() == Some(1);
        if abnormal || functional {
            let case: serde_json::Value = if functional { util["failure"]["case"].clone() } else { std::fs::read_to_string(&journal).ok().and_then(|t| serde_json::from_str(&t).ok()).unwrap_or_default() };
            let head: String = reports.first().map(|r| r.lines().take(60).collect::<Vec<_>>().join("\n")).unwrap_or_else(|| if functional { util["failure"]["message"].as_str().unwrap_or("oracle mismatch").to_string() } else { format!("the public-utility stage ended abnormally: {:?}", o.status) });
            let sig = if abnormal { "asan-report" } else { "public-utility-oracle" };
            let doc = json!({"property": "C20", "engine": "public_utilities", "signature": sig, "message": head.lines().find(|l| l.contains("AddressSanitizer")).unwrap_or(head.lines().next().unwrap_or("abnormal termination")), "campaign": "C20U", "seed": seed, "report": head, "case": case});
            if !env::report_violation("C20", sig, &doc) {
                code = 1;
                ev.violations += 1;
                eprintln!("fxv: C20 (public utilities): {}", doc["message"].as_str().unwrap_or(""));
            }
        } else if o.status.code() != Some(0) && code == 0 {
            code = 2;
        }
    }
    subs.insert("public_utilities".into(), util);
    // slow-device stage ("a buffer the kernel may still be writing from"): AddressSanitizer does not
    // see reads done by the kernel and its quarantine would hide the reuse, so this stage runs in
    // the uninstrumented binary that ./check builds next to this one
    let plain = env::verif_root().join("target/release/fxv");
    let mut slow = json!({"ran": false});
    if plain.exists() {
        let out = Command::new(&plain).args(["C20K", "--tier", tier.name()]).env("VERIF_SEED", seed.to_string()).env_remove("ASAN_OPTIONS").env_remove("FXV_ASAN").stdout(Stdio::piped()).stderr(Stdio::inherit()).output();
        if let Ok(o) = out {
            let text = String::from_utf8_lossy(&o.stdout).to_string();
            for l in text.lines().filter(|l| l.starts_with("VIOLATION ") || l.starts_with("KNOWN-FINDING")) {
                println!("{l}");
            }
            if let Some(l) = text.lines().find(|l| l.starts_with("C20K-SUMMARY ")) {
                slow = serde_json::from_str(&l["C20K-SUMMARY ".len()..]).unwrap_or_default();
                let n = slow["executions"].as_u64().unwrap_or(0);
                ev.evaluations += n;
                for i in 0..slow["distinct_nontrivial"].as_u64().unwrap_or(0) {
                    ev.nontrivial.insert(0xC20C_0000 + i);
                }
            }
            match o.status.code() {
                Some(1) => {
                    code = 1;
                    ev.violations += 1;
                }
                Some(0) => {}
                _ => {
                    if code == 0 {
                        code = 2;
                    }
                }
            }
        }
    }
    subs.insert("slow_device".into(), slow);
    // default-allocator stage: direct-I/O buffers in a process whose global allocator is jemalloc
    let mut dio = json!({"ran": false});
    if plain.exists() {
        let out = Command::new(&plain).args(["C20J", "--tier", tier.name()]).env("VERIF_SEED", seed.to_string()).env_remove("ASAN_OPTIONS").env_remove("FXV_ASAN").stdout(Stdio::piped()).stderr(Stdio::inherit()).output();
        if let Ok(o) = out {
            let text = String::from_utf8_lossy(&o.stdout).to_string();
            for l in text.lines().filter(|l| l.starts_with("VIOLATION ") || l.starts_with("KNOWN-FINDING")) {
                println!("{l}");
            }
            if let Some(l) = text.lines().find(|l| l.starts_with("C20J-SUMMARY ")) {
                dio = serde_json::from_str(&l["C20J-SUMMARY ".len()..]).unwrap_or_default();
                ev.evaluations += dio["executions"].as_u64().unwrap_or(0);
                for i in 0..dio["distinct_nontrivial"].as_u64().unwrap_or(0) {
                    ev.nontrivial.insert(0xC20D_0000 + i);
                }
            }
            match o.status.code() {
                Some(1) => {
                    code = 1;
                    ev.violations += 1;
                }
                Some(0) => {}
                _ => {
                    if code == 0 {
                        code = 2;
                    }
                }
            }
        }
    }
    subs.insert("direct_io_default_allocator".into(), dio);
    ev.set("campaigns", serde_json::Value::Object(subs));
    if ev.samples.is_empty() {
        ev.samples.push(json!("no sample"));
    }
    ev.evaluations = ev.evaluations.max(1);
    ev.write();
    code
}

//! C19: write-behind is bounded — accepted writes (and retirements) become durable without an
//! explicit flush, for every shard / worker count, with idle and busy neighbours.

use std::collections::BTreeMap;
use std::sync::atomic::{AtomicBool, AtomicU64, Ordering};
use std::sync::{Arc, Mutex};
use std::time::{Duration, Instant};

use proptest::prelude::*;
use serde::{Deserialize, Serialize};
use serde_json::json;

use crate::campaign::run_lanes;
use crate::crash;
use crate::env::{self, Evidence, Tier};
use crate::layout;
use crate::ops::{Config, DevSize};
use crate::seq;
use crate::trace;

#[derive(Clone, Debug, Serialize, Deserialize)]
pub struct WbCase {
    pub visible_cpus: u8,
    pub keys: u16,
    /// extra updates of one key (each adds two buffer entries): > 512 fills a shard buffer
    pub hot_updates: u16,
    pub overwrite_pct: u8,
    pub delete_pct: u8,
    pub hammer: bool,
    pub value_len: u16,
    pub plain_io: bool,
    pub ttl_sweep: bool,
    /// after the burst drained: this many single writes, one at a time, each awaited separately
    #[serde(default)]
    pub probes: u8,
    /// instead of the burst: fill a tiny device (data blocks), keep accepted writes waiting for
    /// space for `hold_ms`, then reclaim space with deletes: (data blocks, victims, hold_ms)
    #[serde(default)]
    pub full_device: Option<(u16, u8, u16)>,
    /// values of this many KiB instead of `value_len` (bursts whose bytes, not their entry count,
    /// fill a shard's 16 MiB buffer); the device is sized to fit
    #[serde(default)]
    pub value_kib: u16,
    /// after the burst: 2-4 threads overwrite their own keys without pause for this many ms (the
    /// workers stay busy across several periodic ticks, their wake-up channels stay full), then
    /// the store idles and the sparse probes follow
    #[serde(default)]
    pub sustained_ms: u16,
    /// after the burst drained: the store is left alone for this many ms before the sparse probes;
    /// the first probe after the idle period must be on the device within 3 s (+ measured stalls)
    #[serde(default)]
    pub idle_ms: u16,
}

fn strat() -> BoxedStrategy<WbCase> {
    (
        prop_oneof![Just(1u8), Just(2u8), Just(3u8), Just(4u8), Just(5u8), Just(6u8), Just(7u8), Just(8u8), Just(9u8), Just(11u8), Just(12u8), Just(13u8), Just(15u8), Just(16u8)],
        64u16..260,
        prop_oneof![3 => Just(0u16), 2 => 520u16..700, 1 => 1u16..60],
        0u8..60,
        0u8..40,
        any::<bool>(),
        prop_oneof![Just(8u16), 20u16..400, 4000u16..9000],
        any::<bool>(),
        proptest::bool::weighted(0.25),
        prop_oneof![3 => Just(0u8), 1 => 8u8..16],
        prop_oneof![6 => Just(None), 1 => (24u16..64, 1u8..7, prop_oneof![Just(100u16), 300u16..1200, 1200u16..3500]).prop_map(Some)],
        prop_oneof![10 => Just(0u16), 1 => 64u16..200],
    )
        .prop_flat_map(|t| (Just(t), prop_oneof![6 => Just(0u16), 1 => 300u16..900], prop_oneof![39 => Just(0u16), 1 => 6500u16..7500]))
        .prop_map(|((visible_cpus, keys, hot_updates, overwrite_pct, delete_pct, hammer, value_len, plain_io, ttl_sweep, probes, full_device, value_kib), sustained_ms, idle_ms)| {
            if idle_ms > 0 {
                // a quiet store: small burst, idle period, then sparse probes
                return WbCase { visible_cpus, keys, hot_updates: 0, overwrite_pct, delete_pct, hammer: false, value_len: value_len.min(400), plain_io, ttl_sweep: false, probes: probes.clamp(3, 6), full_device: None, value_kib: 0, sustained_ms: 0, idle_ms };
            }
            if sustained_ms > 0 {
                // sustained pressure, then idle, then sparse probes on every shard
                return WbCase { visible_cpus, keys, hot_updates: 0, overwrite_pct, delete_pct, hammer: false, value_len: value_len.min(400), plain_io, ttl_sweep: false, probes: probes.max(12), full_device: None, value_kib: 0, sustained_ms, idle_ms: 0 };
            }
            // byte-filling bursts: no hot key (its updates would multiply the bytes), no sweeper
            let big = value_kib > 0 && full_device.is_none();
            WbCase { visible_cpus, keys, hot_updates: if big { 0 } else { hot_updates }, overwrite_pct: if big { overwrite_pct / 4 } else { overwrite_pct }, delete_pct, hammer, value_len, plain_io, ttl_sweep: ttl_sweep && !big, probes, full_device, value_kib: if big { value_kib } else { 0 }, sustained_ms: 0, idle_ms: 0 }
        })
        .boxed()
}

#[derive(Default, Clone)]
pub struct WbNotes {
    pub idled: bool,
    pub sustained: bool,
    pub shards: usize,
    pub workers: usize,
    pub shards_hit: usize,
    pub drained_ms: u64,
    pub slow: bool,
    pub max_stall_ms: u64,
    pub other_worker_pending: bool,
    pub probes_durable: u64,
    /// full-device phase: ms the victims waited for space, ms until they were durable afterwards
    pub full_waited_ms: u64,
    pub full_drained_ms: u64,
}

const NOMINAL: Duration = Duration::from_secs(2);
const HARD: Duration = Duration::from_secs(15);

fn key(i: u16) -> Vec<u8> {
    format!("wb-{i:05}").into_bytes()
}

/// Full-device phase: accepted writes that cannot be allocated yet must reach the device on their
/// own, within the same bound, once accepted deletes have reclaimed the space. No flush anywhere.
fn judge_full(case: &WbCase, blocks: u16, victims: u8, hold_ms: u16, notes: &mut WbNotes) -> Result<(), (String, String)> {
    let cfg = Config { persistent: true, version: 3, cache: false, ttl: false, dev: DevSize::Tiny(blocks), max_memory: None, plain_io: case.plain_io, legacy_plain_meta: false, visible_cpus: case.visible_cpus };
    let path = env::fresh_path("wbfull");
    std::fs::File::create(&path).expect("create");
    feoxdb::verif::set_thread_clock(None);
    let store = Arc::new(seq::open_store(&cfg, Some(&path)).map_err(|e| ("open-failed".to_string(), format!("{e:?}")))?);
    let stop = Arc::new(AtomicBool::new(false));
    let max_stall = Arc::new(AtomicU64::new(0));
    let hb = {
        let (stop, max_stall) = (stop.clone(), max_stall.clone());
        std::thread::spawn(move || {
            while !stop.load(Ordering::Relaxed) {
                let t = Instant::now();
                std::thread::sleep(Duration::from_millis(10));
                max_stall.fetch_max(t.elapsed().as_millis().saturating_sub(10) as u64, Ordering::Relaxed);
            }
        })
    };
    let snap0 = store.verif_snapshot();
    notes.shards = snap0.shard_pending.len();
    notes.workers = snap0.worker_count;
    let bound = |since: Instant| since.elapsed() > HARD + Duration::from_millis(max_stall.load(Ordering::Relaxed) * 5);
    let on_device = |k: &[u8]| store.verif_peek(k).is_some_and(|p| p.sector != 0);
    let mut verdict: Result<(), (String, String)> = Ok(());
    // 1. one-block records, exactly as many as the data area holds; all must drain by themselves
    let fillers: Vec<Vec<u8>> = (0..blocks).map(|i| format!("wb-fill-{i:04}").into_bytes()).collect();
    for k in &fillers {
        let _ = store.insert(k, b"filler");
    }
    let t0 = Instant::now();
    while !fillers.iter().all(|k| on_device(k)) {
        std::thread::sleep(Duration::from_millis(20));
        if bound(t0) {
            verdict = Err(("write-behind-unbounded".into(), format!("{} one-block records on a device with {blocks} data blocks are not all durable {} s after the last call (no explicit flush)", blocks, t0.elapsed().as_secs())));
            break;
        }
    }
    if verdict.is_ok() {
        // 2. accepted writes that have to wait for space
        let vk: Vec<Vec<u8>> = (0..victims).map(|i| format!("wb-victim-{i}").into_bytes()).collect();
        let mut accepted = Vec::new();
        for k in &vk {
            if store.insert(k, b"waits for space").is_ok() {
                accepted.push(k.clone());
            }
        }
        std::thread::sleep(Duration::from_millis(hold_ms as u64));
        notes.full_waited_ms = hold_ms as u64;
        // 3. reclaim: delete twice as many durable records (accepted deletes)
        for k in fillers.iter().take(2 * victims as usize + 1) {
            let _ = store.delete(k);
        }
        let t1 = Instant::now();
        loop {
            std::thread::sleep(Duration::from_millis(20));
            let waiting: Vec<String> = accepted.iter().filter(|k| !on_device(k)).map(|k| String::from_utf8_lossy(k).into_owned()).collect();
            if waiting.is_empty() {
                notes.full_drained_ms = t1.elapsed().as_millis() as u64;
                notes.drained_ms = notes.full_drained_ms;
                notes.slow = t1.elapsed() > NOMINAL;
                break;
            }
            if bound(t1) {
                let snap = store.verif_snapshot();
                let free: u64 = snap.free_runs.iter().map(|(_, n)| *n).sum();
                verdict = Err((
                    "waiting-write-never-flushed".into(),
                    format!(
                        "accepted writes {waiting:?} waited {hold_ms} ms for space on a full device; {} s after accepted deletes reclaimed it ({free} free blocks now, no explicit flush, max scheduling stall {} ms) they are still not on the device; pending per shard {:?}, {} workers",
                        t1.elapsed().as_secs(),
                        max_stall.load(Ordering::Relaxed),
                        snap.shard_pending,
                        snap.worker_count
                    ),
                ));
                break;
            }
        }
    }
    notes.max_stall_ms = max_stall.load(Ordering::Relaxed);
    stop.store(true, Ordering::Relaxed);
    let _ = hb.join();
    env::reap(store, Some(path));
    verdict
}

pub fn judge(case: &WbCase, notes: &mut WbNotes) -> Result<(), (String, String)> {
    if let Some((blocks, victims, hold_ms)) = case.full_device {
        return judge_full(case, blocks, victims, hold_ms, notes);
    }
    let value_bytes = if case.value_kib > 0 { case.value_kib as usize * 1024 } else { case.value_len.max(8) as usize };
    // byte-filling bursts need room for every generation: keys * (1 + overwrites) * blocks
    let dev = if case.value_kib > 0 { DevSize::Tiny((((case.keys as usize * (value_bytes / 4096 + 2)) * 3 / 2 + 256).min(65_000)) as u16) } else { DevSize::Large };
    let cfg = Config { persistent: true, version: 3, cache: false, ttl: case.ttl_sweep, dev, max_memory: None, plain_io: case.plain_io, legacy_plain_meta: false, visible_cpus: case.visible_cpus };
    let path = env::fresh_path("wb");
    std::fs::File::create(&path).expect("create");
    let dev = trace::register(&path, true);
    feoxdb::verif::set_thread_clock(None);
    let store = Arc::new(seq::open_store(&cfg, Some(&path)).map_err(|e| ("open-failed".to_string(), format!("{e:?}")))?);
    if case.ttl_sweep {
        store.start_ttl_sweeper(Some(feoxdb::core::ttl_sweep::TtlConfig { sample_size: 50, expiry_threshold: 0.1, max_iterations: 16, max_time_per_run: Duration::from_millis(5), sleep_interval: Duration::from_millis(20), enabled: true }));
    }
    // heartbeat measures scheduling stalls
    let stop = Arc::new(AtomicBool::new(false));
    let max_stall = Arc::new(AtomicU64::new(0));
    let hb = {
        let (stop, max_stall) = (stop.clone(), max_stall.clone());
        std::thread::spawn(move || {
            while !stop.load(Ordering::Relaxed) {
                let t = Instant::now();
                std::thread::sleep(Duration::from_millis(10));
                let over = t.elapsed().as_millis().saturating_sub(10) as u64;
                max_stall.fetch_max(over, Ordering::Relaxed);
            }
        })
    };
    // expected final state of the burst keys
    let mut want: BTreeMap<Vec<u8>, Option<Vec<u8>>> = BTreeMap::new();
    let val = |i: u16, g: u32| -> Vec<u8> {
        let mut v = vec![0u8; value_bytes];
        seq::stamp_fill(&mut v, i, g);
        v
    };
    let mut err = None;
    for i in 0..case.keys {
        let k = key(i);
        let v = val(i, 1);
        if let Err(e) = store.insert(&k, &v) {
            err = Some(format!("insert failed: {e:?}"));
            break;
        }
        want.insert(k, Some(v));
    }
    // sweepable keys: expire almost immediately, their removal must reach the device too
    let mut swept: Vec<Vec<u8>> = Vec::new();
    if case.ttl_sweep {
        for i in 0..8u16 {
            let k = format!("wb-ttl-{i}").into_bytes();
            let now = store.get_timestamp_pub();
            let _ = store.insert_with_ttl_and_timestamp(&k, b"short-lived", 1, Some(now.saturating_sub(999_000_000)));
            swept.push(k);
        }
    }
    for i in 0..case.keys {
        let k = key(i);
        let r = (i as u32 * 37 + 11) % 100;
        if r < case.overwrite_pct as u32 {
            let v = val(i, 2);
            let _ = store.insert(&k, &v);
            want.insert(k, Some(v));
        } else if r < (case.overwrite_pct as u32 + case.delete_pct as u32) {
            let _ = store.delete(&k);
            want.insert(k, None);
        }
    }
    for g in 0..case.hot_updates {
        let k = key(0);
        let v = val(0, 10 + g as u32);
        let _ = store.insert(&k, &v);
        want.insert(k, Some(v));
    }
    if case.sustained_ms > 0 {
        let threads = 2 + (case.keys as usize % 3);
        let until = Instant::now() + Duration::from_millis(case.sustained_ms as u64);
        let mut hs = Vec::new();
        for t in 0..threads {
            let store = store.clone();
            let vb = value_bytes;
            hs.push(std::thread::spawn(move || {
                let mut g = 0u32;
                let mut last: Vec<(Vec<u8>, Vec<u8>)> = Vec::new();
                while Instant::now() < until {
                    g += 1;
                    last.clear();
                    for j in 0..8u16 {
                        let k = format!("wb-sus-{t}-{j}").into_bytes();
                        let mut v = vec![0u8; vb];
                        seq::stamp_fill(&mut v, 20_000 + t as u16 * 16 + j, g);
                        let _ = store.insert(&k, &v);
                        last.push((k, v));
                    }
                }
                last
            }));
        }
        for h in hs {
            if let Ok(last) = h.join() {
                for (k, v) in last {
                    want.insert(k, Some(v));
                }
            }
        }
        notes.sustained = true;
    }
    let snap0 = store.verif_snapshot();
    notes.shards = snap0.shard_pending.len();
    notes.workers = snap0.worker_count;
    notes.shards_hit = snap0.shard_pending.iter().filter(|n| **n > 0).count();
    notes.other_worker_pending = notes.workers > 1 && snap0.shard_pending.iter().enumerate().any(|(s, n)| *n > 0 && s % notes.workers != 0);
    let t_end = Instant::now();
    // busy neighbour
    let hammer_stop = Arc::new(AtomicBool::new(false));
    let hammer = case.hammer.then(|| {
        let (store, stop) = (store.clone(), hammer_stop.clone());
        std::thread::spawn(move || {
            let mut g = 0u32;
            while !stop.load(Ordering::Relaxed) {
                g += 1;
                let _ = store.insert(b"hammer-key", &g.to_le_bytes());
                if g % 64 == 0 {
                    std::thread::sleep(Duration::from_micros(200));
                }
            }
        })
    });
    // wait until every burst key is on the device and every superseded generation retired
    let mut verdict: Result<(), (String, String)> = Ok(());
    if let Some(e) = err {
        verdict = Err(("workload-error".into(), e));
    } else {
        loop {
            std::thread::sleep(Duration::from_millis(50));
            let stall = Duration::from_millis(max_stall.load(Ordering::Relaxed) * 5);
            let mut pending_keys = 0usize;
            for (k, v) in &want {
                match (store.verif_peek(k), v) {
                    (Some(p), Some(_)) if p.sector == 0 => pending_keys += 1,
                    (None, Some(_)) => pending_keys += 1,
                    _ => {}
                }
            }
            let snap = store.verif_snapshot();
            let swept_left = swept.iter().filter(|k| store.verif_peek(k).is_some()).count();
            let retire_pending = if case.hammer { 0 } else { snap.retirements_pending };
            let buffered: usize = if case.hammer { 0 } else { snap.shard_pending.iter().sum() };
            if pending_keys == 0 && retire_pending == 0 && buffered == 0 && swept_left == 0 {
                let ms = t_end.elapsed().as_millis() as u64;
                notes.drained_ms = ms;
                notes.slow = t_end.elapsed() > NOMINAL + stall;
                break;
            }
            if t_end.elapsed() > HARD + stall {
                let stuck: Vec<usize> = snap.shard_pending.iter().enumerate().filter(|(_, n)| **n > 0).map(|(s, _)| s).collect();
                verdict = Err((
                    "write-behind-unbounded".into(),
                    format!(
                        "{} s after the last call returned (no explicit flush, max scheduling stall {} ms): {pending_keys} accepted keys are not on the device, {} retirements and {buffered} buffered entries pending, {swept_left} swept keys left; shards with pending entries {stuck:?} of {} shards / {} workers",
                        t_end.elapsed().as_secs(),
                        max_stall.load(Ordering::Relaxed),
                        snap.retirements_pending,
                        snap.shard_pending.len(),
                        snap.worker_count
                    ),
                ));
                break;
            }
        }
    }
    hammer_stop.store(true, Ordering::Relaxed);
    if let Some(h) = hammer {
        let _ = h.join();
        // with a busy neighbour the loop above cannot wait for the queues (the neighbour keeps
        // them non-empty) and says nothing about accepted deletes, whose only trace is a
        // retirement: once the neighbour is quiet the queues must drain within the same bound
        // before the durable image is judged
        if verdict.is_ok() {
            let t_quiet = Instant::now();
            loop {
                let snap = store.verif_snapshot();
                let buffered: usize = snap.shard_pending.iter().sum();
                if snap.retirements_pending == 0 && buffered == 0 {
                    break;
                }
                let stall = Duration::from_millis(max_stall.load(Ordering::Relaxed) * 5);
                if t_quiet.elapsed() > HARD + stall {
                    verdict = Err((
                        "write-behind-unbounded".into(),
                        format!("{} s after the busy neighbour stopped (no explicit flush, max scheduling stall {} ms): {} retirements and {buffered} buffered entries still pending", t_quiet.elapsed().as_secs(), max_stall.load(Ordering::Relaxed), snap.retirements_pending),
                    ));
                    break;
                }
                std::thread::sleep(Duration::from_millis(20));
            }
        }
    }
    // sparse traffic: one write at a time, each must reach the device on its own (a shard that is
    // only drained as a side effect of its neighbours' traffic would stay pending here)
    if verdict.is_ok() && case.probes > 0 {
        if case.hammer {
            // let the hammer key drain first
            std::thread::sleep(Duration::from_millis(300));
        }
        if case.idle_ms > 0 {
            std::thread::sleep(Duration::from_millis(case.idle_ms as u64));
            notes.idled = true;
        }
        for i in 0..case.probes as u16 {
            let k = format!("wb-probe-{i:02}-{}", case.keys).into_bytes();
            let v = val(10_000 + i, 1);
            let _ = store.insert(&k, &v);
            let t0 = Instant::now();
            loop {
                std::thread::sleep(Duration::from_millis(20));
                if store.verif_peek(&k).is_some_and(|p| p.sector != 0) {
                    want.insert(k.clone(), Some(v.clone()));
                    notes.probes_durable += 1;
                    break;
                }
                let stall = Duration::from_millis(max_stall.load(Ordering::Relaxed) * 5);
                if case.idle_ms > 0 && i == 0 && t0.elapsed() > Duration::from_secs(3) + stall * 2 {
                    verdict = Err((
                        "first-write-after-idle-slow".into(),
                        format!("the first accepted write after {} ms without traffic ({}) is still not on the device {} ms after the call returned (no explicit flush, flush interval 100 ms, max scheduling stall {} ms)", case.idle_ms, String::from_utf8_lossy(&k), t0.elapsed().as_millis(), max_stall.load(Ordering::Relaxed)),
                    ));
                    break;
                }
                if t0.elapsed() > HARD + stall {
                    let snap = store.verif_snapshot();
                    let stuck: Vec<usize> = snap.shard_pending.iter().enumerate().filter(|(_, n)| **n > 0).map(|(s, _)| s).collect();
                    verdict = Err((
                        "single-write-never-flushed".into(),
                        format!("a single accepted write ({}) is still not on the device {} s after the call returned, with no other traffic and no explicit flush; shards with pending entries {stuck:?} of {} shards / {} workers", String::from_utf8_lossy(&k), t0.elapsed().as_secs(), snap.shard_pending.len(), snap.worker_count),
                    ));
                    break;
                }
            }
            if verdict.is_err() {
                break;
            }
        }
    }
    // the durable image (fsync-covered writes only) really holds the final state
    if verdict.is_ok() {
        let entries = dev.lock().unwrap().entries.clone();
        if !entries.is_empty() {
            let base = vec![0u8; cfg.dev.blocks() as usize * 4096];
            let (durable, volatile) = trace::split_at(&entries, entries.len() - 1);
            let img = trace::build_image(&base, &entries, &durable, &volatile, &vec![false; volatile.len()], None);
            match layout::decode_image(&img) {
                Err(e) => verdict = Err(("durable-image-undecodable".into(), e)),
                Ok(dec) => {
                    for (k, v) in &want {
                        let got = dec.live.get(k).map(|r| &r.value);
                        if got != v.as_ref() {
                            verdict = Err(("not-durable-although-drained".into(), format!("key {} is {} in the fsync-covered image but the store reported it flushed", String::from_utf8_lossy(k), if got.is_some() { "stale" } else { "missing" })));
                            break;
                        }
                    }
                    if verdict.is_ok() && !case.hammer {
                        let burst_records = dec.all_records.iter().filter(|r| r.key.starts_with(b"wb-")).count();
                        let burst_live = dec.live.keys().filter(|k| k.starts_with(b"wb-")).count();
                        if burst_records != burst_live {
                            verdict = Err(("superseded-generation-not-retired".into(), format!("{burst_records} records on the device for {burst_live} live keys after the queue drained")));
                        }
                    }
                }
            }
            // sanity: the image also recovers
            if verdict.is_ok() {
                let mut c2 = cfg.clone();
                c2.ttl = false;
                if let Err(e) = crash::open_image(&img, &c2, 0, false, false) {
                    verdict = Err(("durable-image-unrecoverable".into(), e));
                }
            }
        }
    }
    notes.max_stall_ms = max_stall.load(Ordering::Relaxed);
    stop.store(true, Ordering::Relaxed);
    let _ = hb.join();
    dev.lock().unwrap().recording = false;
    trace::unregister(&path);
    env::reap(store, Some(path));
    verdict
}

pub fn run(tier: Tier, seed: u64, replay: Option<&str>) -> i32 {
    if let Some(path) = replay {
        let doc: serde_json::Value = serde_json::from_str(&std::fs::read_to_string(path).expect("read")).expect("json");
        let case: WbCase = serde_json::from_value(doc["case"].clone()).expect("case");
        let r = judge(&case, &mut WbNotes::default());
        env::wait_reaper();
        return match r {
            Err((sig, msg)) => {
                println!("replay: [{sig}] {msg}");
                println!("VIOLATION property=C19 replay={path}");
                1
            }
            Ok(()) => {
                println!("replay: the saved case passes on this tree");
                0
            }
        };
    }
    let started = Instant::now();
    let evaluations = Arc::new(AtomicU64::new(0));
    let nt = Arc::new(Mutex::new(std::collections::HashSet::<u64>::new()));
    let counters = Arc::new(Mutex::new(BTreeMap::<String, u64>::new()));
    let samples = Arc::new(Mutex::new(Vec::<serde_json::Value>::new()));
    let (e2, n2, c2, s2) = (evaluations.clone(), nt.clone(), counters.clone(), samples.clone());
    let check = move |case: &WbCase, counting: bool| -> Result<(), String> {
        let mut notes = WbNotes::default();
        let mut r = judge(case, &mut notes);
        if r.is_err() {
            // a timing verdict must reproduce once before it is believed
            let mut n2 = WbNotes::default();
            let again = judge(case, &mut n2);
            if again.is_ok() {
                r = Ok(());
                c2.lock().unwrap().entry("timing_verdict_not_reproduced".into()).and_modify(|v| *v += 1).or_insert(1);
            }
        }
        if counting {
            e2.fetch_add(1, Ordering::Relaxed);
            let mut c = c2.lock().unwrap();
            *c.entry(format!("workers.{}", notes.workers)).or_insert(0) += 1;
            if notes.slow {
                *c.entry("slow_over_2s".into()).or_insert(0) += 1;
            }
            let bucket = match notes.drained_ms {
                0..=300 => "drained_under_300ms",
                301..=1000 => "drained_300ms_1s",
                1001..=2000 => "drained_1s_2s",
                _ => "drained_over_2s",
            };
            *c.entry(bucket.into()).or_insert(0) += 1;
            if case.hot_updates > 512 {
                *c.entry("buffer_filling_burst".into()).or_insert(0) += 1;
            }
            if notes.sustained {
                *c.entry("sustained_pressure_then_sparse_probes".into()).or_insert(0) += 1;
            }
            if notes.idled {
                *c.entry("idle_period_then_sparse_probes".into()).or_insert(0) += 1;
            }
            if case.value_kib > 0 && case.full_device.is_none() {
                *c.entry("byte_filling_burst".into()).or_insert(0) += 1;
                if case.keys as usize * case.value_kib as usize > 16 * 1024 * notes.shards.max(1) {
                    *c.entry("byte_filling_burst.over_16MiB_per_shard".into()).or_insert(0) += 1;
                }
            }
            if case.hammer && case.full_device.is_none() {
                *c.entry("busy_neighbour".into()).or_insert(0) += 1;
            }
            if case.full_device.is_some() {
                *c.entry("full_device_phase".into()).or_insert(0) += 1;
                if notes.full_waited_ms >= 1000 {
                    *c.entry("full_device_phase.waited_over_1s".into()).or_insert(0) += 1;
                }
            }
            *c.entry("single_write_probes_durable".into()).or_insert(0) += notes.probes_durable;
            if notes.shards_hit >= 2 && notes.other_worker_pending {
                let fp = env::fnv(&serde_json::to_vec(case).unwrap());
                if n2.lock().unwrap().insert(fp) {
                    let mut s = s2.lock().unwrap();
                    if s.len() < 4 {
                        s.push(json!({"case": serde_json::to_value(case).unwrap(), "shards": notes.shards, "workers": notes.workers, "shards_with_pending_entries": notes.shards_hit, "drained_ms": notes.drained_ms}));
                    }
                }
            }
        }
        r.map_err(|(sig, msg)| format!("[{sig}] {msg}"))
    };
    let found = run_lanes(strat(), tier.pick(400, 5000), 6, seed, env::threads(), check);
    env::wait_reaper();
    let mut ev = Evidence::new(
        "C19",
        tier,
        seed,
        "exploration",
        "proptest-generated live workloads without any explicit flush on stores built with 1..8 workers/shards (2-16 visible CPUs): 64-260 distinct keys (so all shards are hit), overwrites and deletes whose old generations must be retired, optional buffer-filling burst on one key (>1024 entries in one shard), one case in seven with 2-4 threads overwriting their own keys without pause for 0.3-0.9 s (workers busy across several periodic ticks, wake-up channels full) followed by at least 12 sparse probes, one case in forty left idle for 6.5-7.5 s before 3-6 sparse probes (the first of them must be on the device within 3 s + measured stalls: nothing may slow the periodic flusher down while the store is quiet), one case in eleven with values of 64-200 KiB (a burst whose bytes exceed a shard's 16 MiB buffer), optional hammering neighbour thread, optional TTL keys removed by the sweeper, small to 9 KB values, both I/O paths, odd and even CPU counts; a quarter of the cases continues with 8-15 single writes issued one at a time, each awaited separately (sparse traffic); a seventh of the cases instead fills a 24-63 block device with one-block records, issues 1-6 further accepted writes that must wait for space for 0.1-3.5 s, reclaims space with accepted deletes and requires the waiting writes on the device within the same bound. After the last call returns the harness polls (peek/snapshot hooks) until every accepted key has a device extent and, without a busy neighbour, no buffered entry or retirement is pending; then the fsync-covered image rebuilt from the I/O trace must decode (independent codec) to the final values with no superseded generation left, and recover. Violation only if not drained 15 s + 5x the largest measured scheduling stall after the last call, reproduced twice; 2 s..15 s is recorded as slow. Non-trivial: at least two shards held pending entries at the end of the burst, one of them owned by a worker other than worker 0.",
    );
    ev.started = started;
    ev.evaluations = evaluations.load(Ordering::Relaxed);
    ev.nontrivial = nt.lock().unwrap().clone();
    ev.samples = samples.lock().unwrap().clone();
    if ev.samples.is_empty() {
        ev.samples.push(json!("no non-trivial case in this run"));
    }
    ev.set("class_counts", json!(*counters.lock().unwrap()));
    ev.assumptions = vec!["timing verdicts use generous bounds (15 s + stalls) and must reproduce; the nominal bound (2 s) is only reported".into()];
    let mut code = 0;
    if let Some((case, msg)) = found {
        let sig = msg.strip_prefix('[').and_then(|m| m.split(']').next()).unwrap_or("unknown").to_string();
        let replay = json!({"property": "C19", "signature": sig, "message": msg, "case": serde_json::to_value(&case).unwrap()});
        if !env::report_violation("C19", &sig, &replay) {
            code = 1;
            ev.violations = 1;
            eprintln!("fxv: C19: {msg}");
        }
        ev.set("failure", json!({"signature": sig, "message": msg}));
    }
    ev.write();
    code
}

//! C17: opening arbitrary / damaged / forged device images never panics, hangs, aborts or takes
//! over a foreign file. Images are processed in worker child processes that journal the image
//! before touching it, so an abort or a hang is attributable.

use std::io::Write;
use std::process::{Command, Stdio};
use std::sync::atomic::{AtomicU64, Ordering};

use proptest::prelude::*;
use proptest::strategy::ValueTree;
use serde::{Deserialize, Serialize};
use serde_json::json;

use crate::campaign::new_runner;
use crate::env::{self, Evidence, Tier};
use crate::layout::{self, B};
use crate::ops::{case_strategy, Bias, Config};
use crate::seq::{self, Flags};

static PANICS: AtomicU64 = AtomicU64::new(0);

fn install_panic_counter() {
    std::panic::set_hook(Box::new(|info| {
        PANICS.fetch_add(1, Ordering::SeqCst);
        let msg = info.to_string();
        if let Ok(mut f) = std::fs::OpenOptions::new().create(true).append(true).open(env::scratch_dir().join("panics.log")) {
            let _ = writeln!(f, "{}: {}", std::thread::current().name().unwrap_or("?"), msg.replace('\n', " "));
        }
    }));
}

#[derive(Clone, Debug, Serialize, Deserialize)]
pub enum Mutation {
    BitFlip { at: u32, bit: u8 },
    ByteSet { at: u32, val: u8 },
    BlockSwap { a: u16, b: u16 },
    BlockDup { from: u16, to: u16 },
    BlockZero { at: u16 },
    BlockRandom { at: u16, seed: u64 },
    Truncate { blocks: u16 },
    Extend { blocks: u8 },
    // structure aware (re-stamped so the forged field reaches the arithmetic)
    RecValueLen { which: u16, val: u64 },
    RecKeyLen { which: u16, val: u16 },
    RecTimestamp { which: u16, val: u64 },
    RecExpiry { which: u16, val: u64 },
    RecDuplicate { which: u16, to: u16, ts_delta: i8 },
    MarkerRemaining { which: u16, val: u64 },
    MarkerState { which: u16, val: u8 },
    MarkerForge { at: u16, remaining: u64, state: u8 },
    Journal { slot: u8, generation: u64, version: u32, extents: Vec<(u32, u32)>, state_override: Option<u32>, count_override: Option<u32> },
    Meta { copy: u8, version: u32, device_delta: i64, generation: u64, block_size: u32, records: u64, with_checksum: bool },
    LegacyTombstone { at: u16 },
    DropSignature,
}

#[derive(Clone, Debug, Serialize, Deserialize)]
pub enum ImageSpec {
    Random { blocks: u16, seed: u64, signature: bool },
    Mutant { base: u16, muts: Vec<Mutation> },
    /// a file whose first `zero` blocks are zero and that has foreign content further in (a blank
    /// device scan that stops early would take the file over): `zero` around the scan's chunk size
    ZeroHead { blocks: u16, zero: u16, seed: u64 },
}

fn interesting_u64() -> BoxedStrategy<u64> {
    prop_oneof![
        Just(0u64),
        Just(1),
        Just(u64::MAX),
        Just(u64::MAX - 1),
        Just(u64::MAX / 4096),
        Just(4 * 1024 * 1024),
        Just(4 * 1024 * 1024 + 1),
        Just(1u64 << 32),
        Just((1u64 << 32) - 1),
        0u64..300_000,
        any::<u64>(),
    ]
    .boxed()
}

fn mutation() -> BoxedStrategy<Mutation> {
    let ext = (prop_oneof![Just(0u32), Just(15), Just(16), 16u32..120, Just(u32::MAX), Just(u32::MAX - 1)], prop_oneof![Just(0u32), Just(1), 1u32..8, Just(u32::MAX), Just(1000)]);
    prop_oneof![
        6 => (any::<u32>(), 0u8..8).prop_map(|(at, bit)| Mutation::BitFlip { at, bit }),
        3 => (any::<u32>(), any::<u8>()).prop_map(|(at, val)| Mutation::ByteSet { at, val }),
        3 => (any::<u16>(), any::<u16>()).prop_map(|(a, b)| Mutation::BlockSwap { a, b }),
        3 => (any::<u16>(), any::<u16>()).prop_map(|(from, to)| Mutation::BlockDup { from, to }),
        2 => any::<u16>().prop_map(|at| Mutation::BlockZero { at }),
        2 => (any::<u16>(), any::<u64>()).prop_map(|(at, seed)| Mutation::BlockRandom { at, seed }),
        1 => (17u16..96).prop_map(|blocks| Mutation::Truncate { blocks }),
        1 => (1u8..8).prop_map(|blocks| Mutation::Extend { blocks }),
        6 => (any::<u16>(), interesting_u64()).prop_map(|(which, val)| Mutation::RecValueLen { which, val }),
        4 => (any::<u16>(), prop_oneof![Just(0u16), Just(4066), Just(4067), Just(4074), Just(4075), Just(u16::MAX), any::<u16>()]).prop_map(|(which, val)| Mutation::RecKeyLen { which, val }),
        3 => (any::<u16>(), interesting_u64()).prop_map(|(which, val)| Mutation::RecTimestamp { which, val }),
        3 => (any::<u16>(), interesting_u64()).prop_map(|(which, val)| Mutation::RecExpiry { which, val }),
        4 => (any::<u16>(), any::<u16>(), -1i8..=1).prop_map(|(which, to, ts_delta)| Mutation::RecDuplicate { which, to, ts_delta }),
        5 => (any::<u16>(), interesting_u64()).prop_map(|(which, val)| Mutation::MarkerRemaining { which, val }),
        3 => (any::<u16>(), any::<u8>()).prop_map(|(which, val)| Mutation::MarkerState { which, val }),
        5 => (any::<u16>(), interesting_u64(), prop_oneof![Just(0u8), Just(1), Just(2), any::<u8>()]).prop_map(|(at, remaining, state)| Mutation::MarkerForge { at, remaining, state }),
        6 => (0u8..2, interesting_u64(), prop_oneof![Just(1u32), Just(2), Just(0), Just(3)], proptest::collection::vec(ext, 0..5), proptest::option::of(0u32..3), proptest::option::of(prop_oneof![Just(0u32), Just(1024), Just(1025), Just(u32::MAX), 0u32..2000]))
            .prop_map(|(slot, generation, version, extents, state_override, count_override)| Mutation::Journal { slot, generation, version, extents, state_override, count_override }),
        5 => (0u8..2, prop_oneof![Just(0u32), Just(1), Just(2), Just(3), Just(4), Just(u32::MAX)], prop_oneof![Just(0i64), Just(-4096), Just(4096), Just(-1), Just(1), Just(i64::MAX), Just(i64::MIN)], interesting_u64(), prop_oneof![4 => Just(4096u32), 1 => Just(0u32), 1 => Just(512u32)], interesting_u64(), any::<bool>())
            .prop_map(|(copy, version, device_delta, generation, block_size, records, with_checksum)| Mutation::Meta { copy, version, device_delta, generation, block_size, records, with_checksum }),
        2 => any::<u16>().prop_map(|at| Mutation::LegacyTombstone { at }),
        1 => Just(Mutation::DropSignature),
    ]
    .boxed()
}

fn spec_strategy() -> BoxedStrategy<ImageSpec> {
    prop_oneof![
        2 => (17u16..96, any::<u64>(), any::<bool>()).prop_map(|(blocks, seed, signature)| ImageSpec::Random { blocks, seed, signature }),
        12 => (any::<u16>(), proptest::collection::vec(mutation(), 1..5)).prop_map(|(base, muts)| ImageSpec::Mutant { base, muts }),
        1 => (prop_oneof![Just(255u16), Just(256u16), Just(257u16), Just(511u16), Just(512u16), Just(513u16), 17u16..700], 1u16..40, any::<u64>()).prop_map(|(zero, extra, seed)| ImageSpec::ZeroHead { blocks: zero + extra, zero, seed }),
    ]
    .boxed()
}

fn xorshift(x: &mut u64) -> u64 {
    *x ^= *x << 13;
    *x ^= *x >> 7;
    *x ^= *x << 17;
    *x
}

fn pick<T>(v: &[T], which: u16) -> Option<&T> {
    if v.is_empty() {
        None
    } else {
        Some(&v[(which as usize * v.len()) >> 16])
    }
}

fn apply_mutation(img: &mut Vec<u8>, m: &Mutation) {
    let nblocks = img.len() / B;
    if nblocks == 0 {
        return;
    }
    let blk = |x: u16| (x as usize * nblocks) >> 16;
    // data-area biased block choice for structure-aware forgeries
    let data_blk = |x: u16| if nblocks > 17 { 16 + ((x as usize * (nblocks - 16)) >> 16) } else { nblocks - 1 };
    let dec = layout::decode_image(img).ok();
    let ver = dec.as_ref().map(|d| d.meta.version).unwrap_or(3);
    match m {
        Mutation::BitFlip { at, bit } => {
            let i = (*at as usize) % img.len();
            img[i] ^= 1 << bit;
        }
        Mutation::ByteSet { at, val } => {
            let i = (*at as usize) % img.len();
            img[i] = *val;
        }
        Mutation::BlockSwap { a, b } => {
            let (a, b) = (blk(*a), blk(*b));
            if a != b {
                for i in 0..B {
                    img.swap(a * B + i, b * B + i);
                }
            }
        }
        Mutation::BlockDup { from, to } => {
            let (f, t) = (blk(*from), blk(*to));
            let src = img[f * B..(f + 1) * B].to_vec();
            img[t * B..(t + 1) * B].copy_from_slice(&src);
        }
        Mutation::BlockZero { at } => {
            let a = blk(*at);
            img[a * B..(a + 1) * B].fill(0);
        }
        Mutation::BlockRandom { at, seed } => {
            let a = blk(*at);
            let mut s = *seed | 1;
            for x in &mut img[a * B..(a + 1) * B] {
                *x = xorshift(&mut s) as u8;
            }
        }
        Mutation::Truncate { blocks } => {
            let n = (*blocks as usize).min(nblocks).max(17);
            img.truncate(n * B);
        }
        Mutation::Extend { blocks } => {
            img.extend(std::iter::repeat(0u8).take(*blocks as usize * B));
        }
        Mutation::RecValueLen { which, val } => {
            if let Some(r) = dec.as_ref().and_then(|d| pick(&d.all_records, *which)).cloned() {
                let o = r.sector as usize * B + 6 + r.key.len();
                img[o..o + 8].copy_from_slice(&val.to_le_bytes());
                restamp_record(img, r.sector, ver);
            }
        }
        Mutation::RecKeyLen { which, val } => {
            if let Some(r) = dec.as_ref().and_then(|d| pick(&d.all_records, *which)).cloned() {
                let o = r.sector as usize * B + 4;
                img[o..o + 2].copy_from_slice(&val.to_le_bytes());
                restamp_record(img, r.sector, ver);
            }
        }
        Mutation::RecTimestamp { which, val } => {
            if let Some(r) = dec.as_ref().and_then(|d| pick(&d.all_records, *which)).cloned() {
                let o = r.sector as usize * B + 6 + r.key.len() + 8;
                img[o..o + 8].copy_from_slice(&val.to_le_bytes());
                restamp_record(img, r.sector, ver);
            }
        }
        Mutation::RecExpiry { which, val } => {
            if ver >= 2 {
                if let Some(r) = dec.as_ref().and_then(|d| pick(&d.all_records, *which)).cloned() {
                    let o = r.sector as usize * B + 6 + r.key.len() + 16;
                    img[o..o + 8].copy_from_slice(&val.to_le_bytes());
                    restamp_record(img, r.sector, ver);
                }
            }
        }
        Mutation::RecDuplicate { which, to, ts_delta } => {
            if let Some(r) = dec.as_ref().and_then(|d| pick(&d.all_records, *which)).cloned() {
                let t = data_blk(*to) as u64;
                if (t + r.blocks) as usize <= nblocks {
                    let ts = if *ts_delta >= 0 { r.ts.saturating_add(*ts_delta as u64) } else { r.ts.saturating_sub(1) };
                    let ext = layout::encode_record(ver, t, &r.key, &r.value, ts, r.expiry);
                    img[t as usize * B..t as usize * B + ext.len()].copy_from_slice(&ext);
                }
            }
        }
        Mutation::MarkerRemaining { which, val } => {
            let markers: Vec<u64> = dec.as_ref().map(|d| d.classes.iter().filter(|(_, c)| matches!(c, layout::BlockClass::Marker { .. })).map(|(s, _)| *s).collect()).unwrap_or_default();
            if let Some(s) = pick(&markers, *which) {
                let o = *s as usize * B;
                img[o + 8..o + 16].copy_from_slice(&val.to_le_bytes());
                let t = layout::marker_token(*s, &img[o..o + B]);
                img[o + 16..o + 18].copy_from_slice(&t.to_le_bytes());
            }
        }
        Mutation::MarkerState { which, val } => {
            let markers: Vec<u64> = dec.as_ref().map(|d| d.classes.iter().filter(|(_, c)| matches!(c, layout::BlockClass::Marker { .. })).map(|(s, _)| *s).collect()).unwrap_or_default();
            if let Some(s) = pick(&markers, *which) {
                let o = *s as usize * B;
                img[o + 18] = *val;
                let t = layout::marker_token(*s, &img[o..o + B]);
                img[o + 16..o + 18].copy_from_slice(&t.to_le_bytes());
            }
        }
        Mutation::MarkerForge { at, remaining, state } => {
            let s = data_blk(*at);
            let m = layout::encode_marker(s as u64, *remaining, *state);
            img[s * B..(s + 1) * B].copy_from_slice(&m);
        }
        Mutation::Journal { slot, generation, version, extents, state_override, count_override } => {
            let ext: Vec<(u64, u64)> = extents.iter().map(|(a, b)| (*a as u64, *b as u64)).collect();
            let v = if *version == 1 || *version == 2 { *version } else { 2 };
            let mut d = layout::encode_slot(*generation, &ext, v);
            if *version != v {
                d[8..12].copy_from_slice(&version.to_le_bytes());
            }
            if let Some(s) = state_override {
                d[24..28].copy_from_slice(&s.to_le_bytes());
            }
            if let Some(c) = count_override {
                d[28..32].copy_from_slice(&c.to_le_bytes());
            }
            if *version != v || state_override.is_some() || count_override.is_some() {
                // re-stamp so the forged header is what the checksum covers
                let n = d.len();
                let c = journal_crc(&d[..n]);
                d[12..16].copy_from_slice(&c.to_le_bytes());
                d[32..36].copy_from_slice(&(!c).to_le_bytes());
            }
            let o = (1 + *slot as usize * 3) * B;
            if o + 3 * B <= img.len() {
                img[o..o + 3 * B].fill(0);
                let n = d.len().min(3 * B);
                img[o..o + n].copy_from_slice(&d[..n]);
            }
        }
        Mutation::Meta { copy, version, device_delta, generation, block_size, records, with_checksum } => {
            let dev = (img.len() as i64).wrapping_add(*device_delta) as u64;
            let m = layout::Meta { version: *version, records: *records, size: 0, device_size: dev, fragmentation: 0, creation: 1, update: 1, generation: *generation, has_checksum: *with_checksum };
            let mut b = layout::encode_meta(&m, *with_checksum);
            if *block_size != 4096 {
                b[40..44].copy_from_slice(&block_size.to_le_bytes());
                if *with_checksum {
                    // encode_meta stamps for 4096; re-stamp for the forged block size
                    let fixed = restamp_meta(&b);
                    b = fixed;
                }
            }
            let o = if *copy == 0 { 0 } else { 7 * B };
            img[o..o + B].copy_from_slice(&b);
        }
        Mutation::LegacyTombstone { at } => {
            let s = data_blk(*at);
            img[s * B..(s + 1) * B].copy_from_slice(&layout::encode_legacy_tombstone());
        }
        Mutation::DropSignature => {
            img[0..8].fill(0x5a);
            img[7 * B..7 * B + 8].fill(0x5a);
        }
    }
}

fn journal_crc(d: &[u8]) -> u32 {
    let mut x = layout::crc(0, &d[0..12]);
    x = layout::crc(x, &[0u8; 4]);
    x = layout::crc(x, &d[16..32]);
    x = layout::crc(x, &[0u8; 4]);
    layout::crc(x, &d[36..])
}

fn restamp_meta(b: &[u8]) -> Vec<u8> {
    let mut blk = b.to_vec();
    let res_off = 64;
    let mut x = layout::crc(0, &blk[0..8]);
    x = layout::crc(x, &blk[8..12]);
    for (a, e) in [(16, 24), (24, 32), (32, 40), (40, 44), (44, 48), (48, 56), (56, 64)] {
        x = layout::crc(x, &blk[a..e]);
    }
    x = layout::crc(x, &blk[res_off + 12..res_off + 68]);
    blk[res_off + 4..res_off + 8].copy_from_slice(&x.to_le_bytes());
    blk[res_off + 8..res_off + 12].copy_from_slice(&(!x).to_le_bytes());
    blk
}

/// Re-stamp the v3 token of the record head at `sector` over the extent its (possibly forged)
/// header now claims, clamped to the device; for v1/v2 the token stays 0.
fn restamp_record(img: &mut [u8], sector: u64, ver: u32) {
    if ver < 3 {
        return;
    }
    let n = (img.len() / B) as u64;
    let o = sector as usize * B;
    let kl = u16::from_le_bytes([img[o + 4], img[o + 5]]) as usize;
    let mut blocks = 1u64;
    if 6 + kl + 24 <= B {
        let vl = u64::from_le_bytes(img[o + 6 + kl..o + 14 + kl].try_into().unwrap());
        let tot = (6 + kl + 24) as u64 + vl.min(64 * 1024 * 1024);
        blocks = tot.div_ceil(B as u64).max(1);
    }
    let blocks = blocks.min(n - sector);
    let e = o + blocks as usize * B;
    let t = layout::record_token(sector, &img[o..e]);
    img[o + 2..o + 4].copy_from_slice(&t.to_le_bytes());
}

/// Base images: small valid devices produced by the real code from generated workloads.
fn build_bases(seed: u64) -> Vec<(Config, Vec<u8>)> {
    let bias = Bias {
        max_ops: 30,
        persistent: Some(true),
        versions: vec![1, 2, 3, 3],
        tiny_device: 10,
        large_device: 0,
        memory_limit: 0,
        invalid: 0,
        multi_block: 6,
        hostile: 2,
        big_values: false,
        flush: 8,
        reopen: 0,
        sleep: 0,
        long_keys: false,
        ttl_toggle: false,
        ..Bias::default()
    };
    let strat = case_strategy(&bias);
    let mut runner = new_runner(1, 0, seed, 777);
    let mut out = Vec::new();
    let flags = Flags { results: true, snapshot: true, ..Flags::default() };
    let mut tries = 0;
    while out.len() < 10 && tries < 60 {
        tries += 1;
        let Ok(tree) = strat.new_tree(&mut runner) else { continue };
        let mut case = tree.current();
        case.cfg.dev = crate::ops::DevSize::Tiny(24 + (tries % 5) as u16 * 12);
        case.cfg.plain_io = true;
        case.cfg.visible_cpus = 2;
        case.ops.push(crate::ops::Op::Flush);
        let Ok(mut r) = seq::Runner::new(&case, &flags) else { continue };
        r.keep_file = true;
        let fail = r.run();
        let path = r.path.clone();
        let cfg = r.cfg.clone();
        // close cleanly so the image is a plain valid device
        if let Some(s) = r.store.take() {
            drop(s);
        }
        let _ = r.finish();
        if let Some(p) = path {
            if fail.is_none() {
                if let Ok(img) = std::fs::read(&p) {
                    out.push((cfg, img));
                }
            }
            let _ = std::fs::remove_file(&p);
        }
    }
    out
}

fn materialise(spec: &ImageSpec, bases: &[(Config, Vec<u8>)]) -> (Vec<u8>, bool) {
    match spec {
        ImageSpec::Random { blocks, seed, signature } => {
            let mut s = *seed | 1;
            let mut img = vec![0u8; *blocks as usize * B];
            // sparse random content keeps it cheap: random bytes in a third of the blocks
            for b in 0..*blocks as usize {
                if xorshift(&mut s) % 3 == 0 || b < 8 {
                    for x in &mut img[b * B..(b + 1) * B] {
                        *x = xorshift(&mut s) as u8;
                    }
                }
            }
            if *signature {
                img[0..8].copy_from_slice(layout::SIGNATURE);
            }
            (img, false)
        }
        ImageSpec::ZeroHead { blocks, zero, seed } => {
            let mut s = *seed | 1;
            let mut img = vec![0u8; *blocks as usize * B];
            // one to three blocks of foreign bytes somewhere behind the zero prefix
            for _ in 0..1 + xorshift(&mut s) % 3 {
                let b = *zero as usize + (xorshift(&mut s) as usize) % (*blocks - *zero) as usize;
                let n = 1 + (xorshift(&mut s) as usize) % B;
                for x in &mut img[b * B..b * B + n] {
                    *x = (xorshift(&mut s) as u8) | 1;
                }
            }
            (img, false)
        }
        ImageSpec::Mutant { base, muts } => {
            let (cfg, img) = &bases[(*base as usize * bases.len()) >> 16];
            let mut img = img.clone();
            for m in muts {
                apply_mutation(&mut img, m);
            }
            (img, cfg.ttl)
        }
    }
}

#[derive(Default)]
struct WorkerStats {
    images: u64,
    past_metadata: u64,
    opened: u64,
    rejected_at_door: u64,
    by_error: std::collections::BTreeMap<String, u64>,
    nt: std::collections::HashSet<u64>,
}

/// Judge one image; Err(signature, message) on a violation.
fn judge(img: &[u8], ttl: bool, st: &mut WorkerStats) -> Result<(), (String, String)> {
    let path = env::fresh_path("c17");
    std::fs::write(&path, img).expect("write image");
    let before = env::fnv(img);
    let panics_before = PANICS.load(Ordering::SeqCst);
    let has_sig = img.len() >= 8 * B && (&img[0..8] == layout::SIGNATURE || &img[7 * B..7 * B + 8] == layout::SIGNATURE);
    let all_zero = img.iter().all(|b| *b == 0);
    let cfg = Config { persistent: true, version: 3, cache: img.len() % (2 * B) == 0, ttl, dev: crate::ops::DevSize::Tiny((img.len() / B).saturating_sub(16) as u16), max_memory: None, plain_io: true, legacy_plain_meta: false, visible_cpus: 2 };
    st.images += 1;
    let opened = std::panic::catch_unwind(std::panic::AssertUnwindSafe(|| {
        feoxdb::verif::set_thread_clock(None);
        let b = feoxdb::FeoxStore::builder().hash_bits(8).enable_ttl(cfg.ttl).no_memory_limit().device_path(path.clone()).enable_caching(cfg.cache).allow_ambiguous_legacy_recovery(img.len() % (3 * B) == 0);
        let _g = env::watch("C17 open");
        env::with_visible_cpus(2, || {
            feoxdb::verif::set_thread_force_plain_io(Some(true));
            b.build()
        })
    }));
    let result = match opened {
        Err(_) => {
            let _ = std::fs::remove_file(&path);
            return Err(("panic-in-open".into(), "open panicked".into()));
        }
        Ok(r) => r,
    };
    match result {
        Err(e) => {
            let kind = format!("{:?}", crate::model::classify(&e));
            *st.by_error.entry(kind.clone()).or_insert(0) += 1;
            // "fails for size or metadata reasons": the error class alone is not enough - the
            // store also reports InvalidMetadata from later stages (e.g. a forged journal whose
            // generation counter cannot be advanced, after the journal was replayed). The clause
            // is applied when the independent codec agrees that size or metadata are unusable.
            let door_code = matches!(e, feoxdb::FeoxError::InvalidDevice | feoxdb::FeoxError::InvalidMetadata);
            let door = door_code && layout::decode_image(img).is_err();
            if door_code && !door {
                *st.by_error.entry("metadata-error-code-behind-valid-metadata".into()).or_insert(0) += 1;
            }
            if door {
                st.rejected_at_door += 1;
            } else {
                st.past_metadata += 1;
                st.nt.insert(before);
            }
            let after = std::fs::read(&path).map(|b| env::fnv(&b)).unwrap_or(0);
            let _ = std::fs::remove_file(&path);
            if door && after != before {
                return Err(("rejected-file-modified".into(), format!("open failed with {kind} but the file was modified")));
            }
            if !has_sig && !all_zero && after != before {
                return Err(("foreign-file-modified".into(), format!("a file without a FeOx signature was modified by a failing open ({kind})")));
            }
        }
        Ok(store) => {
            st.opened += 1;
            st.past_metadata += 1;
            st.nt.insert(before);
            if !has_sig && !all_zero {
                drop(store);
                let _ = std::fs::remove_file(&path);
                return Err(("foreign-file-accepted".into(), "a non-empty file without a FeOx signature in either metadata copy was opened as a store".into()));
            }
            let probe = std::panic::catch_unwind(std::panic::AssertUnwindSafe(|| {
                let _g = env::watch("C17 probe");
                let _ = store.len();
                let all = store.range_query(b"", &[0xff; 4100], 10_000).unwrap_or_default();
                let snap = store.verif_snapshot();
                for r in snap.records.iter().take(64) {
                    let _ = store.get(&r.key);
                    let _ = store.get_size(&r.key);
                }
                if let Some(r) = snap.records.first() {
                    let _ = store.insert(&r.key, b"updated-by-probe");
                    let _ = store.update_ttl(&r.key, 5);
                    let _ = store.atomic_increment(&r.key, 1);
                }
                if let Some(r) = snap.records.get(1) {
                    let _ = store.delete(&r.key);
                }
                let _ = store.insert(b"probe-key", &vec![7u8; 5000]);
                let _ = store.insert_if_absent(b"probe-key-2", b"x");
                let _ = store.flush();
                let _ = store.get(b"probe-key");
                let _ = store.range_query(b"", &[0xff; 10], 5);
                let _ = all;
            }));
            // one in five drops is awaited here; the others run on the reaper (a panic there is
            // caught by the global panic counter at the next image / at the end of the worker)
            let dropped = if st.opened % 5 == 0 {
                let r = std::panic::catch_unwind(std::panic::AssertUnwindSafe(|| {
                    let _g = env::watch("C17 drop");
                    drop(store);
                }));
                let _ = std::fs::remove_file(&path);
                r
            } else {
                env::reap(store, Some(path.clone()));
                Ok(())
            };
            if probe.is_err() {
                return Err(("panic-in-probe".into(), "a store opened from the image panicked while answering calls".into()));
            }
            if dropped.is_err() {
                return Err(("panic-in-drop".into(), "dropping a store opened from the image panicked".into()));
            }
        }
    }
    if PANICS.load(Ordering::SeqCst) != panics_before {
        let log = std::fs::read_to_string(env::scratch_dir().join("panics.log")).unwrap_or_default();
        return Err(("panic-in-background-thread".into(), format!("a thread panicked while the image was open: {}", log.lines().last().unwrap_or(""))));
    }
    Ok(())
}

/// Worker process: `fxv C17 --worker <seed> <lane> <count> <outdir>`
pub fn worker(seed: u64, lane: u64, count: u32, outdir: &str) -> i32 {
    install_panic_counter();
    env::set_watch_limit(30_000);
    let bases = build_bases(seed.wrapping_add(lane));
    if bases.is_empty() {
        println!("WORKER-ERROR no base images");
        return 2;
    }
    let strat = spec_strategy();
    let mut runner = new_runner(count, 0, seed, 1000 + lane);
    let mut st = WorkerStats::default();
    let journal = format!("{outdir}/lane{lane}.current.json");
    let mut samples = Vec::new();
    for i in 0..count {
        let Ok(tree) = strat.new_tree(&mut runner) else { continue };
        let spec = tree.current();
        let (img, ttl) = materialise(&spec, &bases);
        if img.len() <= 16 * B || img.len() % B != 0 {
            continue;
        }
        // journal before touching it: an abort or hang is then attributable
        let _ = std::fs::write(&journal, serde_json::to_vec(&json!({"lane": lane, "index": i, "spec": serde_json::to_value(&spec).unwrap(), "ttl": ttl, "image_deflate_hex": crate::props::crashprops::hex_pub(&miniz_oxide::deflate::compress_to_vec(&img, 1))})).unwrap());
        if samples.len() < 2 && matches!(spec, ImageSpec::Mutant { .. }) {
            samples.push(format!("{spec:?}"));
        }
        if let Err((sig, msg)) = judge(&img, ttl, &mut st) {
            // minimise the mutation list (drop mutations while it still fails)
            let mut best = spec.clone();
            if let ImageSpec::Mutant { base, muts } = &spec {
                let mut cur = muts.clone();
                let mut changed = true;
                while changed && cur.len() > 1 {
                    changed = false;
                    for j in 0..cur.len() {
                        let mut t = cur.clone();
                        t.remove(j);
                        let cand = ImageSpec::Mutant { base: *base, muts: t.clone() };
                        let (i2, ttl2) = materialise(&cand, &bases);
                        if i2.len() > 16 * B && judge(&i2, ttl2, &mut WorkerStats::default()).is_err() {
                            cur = t;
                            best = cand;
                            changed = true;
                            break;
                        }
                    }
                }
            }
            let (img2, ttl2) = materialise(&best, &bases);
            let fail = format!("{outdir}/lane{lane}.fail.json");
            let _ = std::fs::write(&fail, serde_json::to_vec(&json!({"signature": sig, "message": msg, "spec": serde_json::to_value(&best).unwrap(), "ttl": ttl2, "image_deflate_hex": crate::props::crashprops::hex_pub(&miniz_oxide::deflate::compress_to_vec(&img2, 6))})).unwrap());
            println!("WORKER-FAIL {fail}");
            env::wait_reaper();
            return 1;
        }
    }
    env::wait_reaper();
    if PANICS.load(Ordering::SeqCst) != 0 {
        let log = std::fs::read_to_string(env::scratch_dir().join("panics.log")).unwrap_or_default();
        let fail = format!("{outdir}/lane{lane}.fail.json");
        let _ = std::fs::write(&fail, serde_json::to_vec(&json!({"signature": "panic-in-background-thread", "message": format!("a thread panicked while dropping a store opened from a generated image: {}", log.lines().last().unwrap_or("")), "spec": "see lane journal", "ttl": false, "image_deflate_hex": ""})).unwrap());
        println!("WORKER-FAIL {fail}");
        return 1;
    }
    let _ = std::fs::remove_file(&journal);
    println!(
        "WORKER-OK {}",
        json!({"images": st.images, "past_metadata": st.past_metadata, "opened": st.opened, "rejected_at_door": st.rejected_at_door, "by_error": st.by_error, "nontrivial": st.nt.len(), "samples": samples, "bases": bases.len()})
    );
    env::wait_reaper();
    0
}

pub fn run(tier: Tier, seed: u64, replay: Option<&str>) -> i32 {
    if let Some(path) = replay {
        install_panic_counter();
        let doc: serde_json::Value = serde_json::from_str(&std::fs::read_to_string(path).expect("read")).expect("json");
        let img = miniz_oxide::inflate::decompress_to_vec(&crate::props::crashprops::unhex(doc["image_deflate_hex"].as_str().unwrap_or(""))).unwrap_or_default();
        let ttl = doc["ttl"].as_bool().unwrap_or(false);
        return match judge(&img, ttl, &mut WorkerStats::default()) {
            Err((sig, msg)) => {
                println!("replay: [{sig}] {msg}");
                println!("VIOLATION property=C17 replay={path}");
                1
            }
            Ok(()) => {
                println!("replay: the saved image is handled cleanly on this tree");
                0
            }
        };
    }
    let started = std::time::Instant::now();
    let lanes = env::threads();
    let total = tier.pick(8_000u32, 240_000);
    let per = total.div_ceil(lanes as u32);
    let outdir = env::scratch_dir().join("c17");
    let _ = std::fs::create_dir_all(&outdir);
    let exe = std::env::current_exe().expect("exe");
    let mut children = Vec::new();
    for lane in 0..lanes {
        let child = Command::new(&exe)
            .args(["C17", "--worker", &seed.to_string(), &lane.to_string(), &per.to_string(), outdir.to_str().unwrap()])
            .stdout(Stdio::piped())
            .stderr(Stdio::null())
            .spawn()
            .expect("spawn worker");
        children.push((lane, child));
    }
    let mut ev = Evidence::new(
        "C17",
        tier,
        seed,
        "exploration",
        "images of valid device size (17-96+ blocks) generated by proptest: (1) random bytes with/without signature; (2) valid v1/v2/v3 images written by the real code from generated workloads, mutated by bit flips, byte sets, block swap/duplicate/zero/randomise, truncation/extension; (3) structure-aware forgeries built with the independent codec and re-stamped so they pass the integrity checks: record key/value lengths, timestamps, expiries, duplicated extents, marker remaining/state, forged markers and legacy tombstones, journal slots (generation, version, count, state, out-of-bounds/overlapping/zero extents), metadata (version, device size, block size, generation, counters). Each image is opened in a worker process that journals it first; oracle: open returns within the watchdog with Ok or Err, no panic in any thread, an opened store answers a probe workload and drops without panic, files without a signature are rejected and byte-identical, InvalidDevice/InvalidMetadata leave the file byte-identical. Non-trivial: an image that got past metadata validation (scan started or store opened); distinct by image hash.",
    );
    ev.started = started;
    let mut code = 0;
    let mut agg: std::collections::BTreeMap<String, u64> = Default::default();
    let mut by_error: std::collections::BTreeMap<String, u64> = Default::default();
    let mut nt = 0u64;
    for (lane, child) in children {
        let out = child.wait_with_output().expect("wait worker");
        let text = String::from_utf8_lossy(&out.stdout).to_string();
        let ok_line = text.lines().find(|l| l.starts_with("WORKER-OK "));
        let fail_line = text.lines().find(|l| l.starts_with("WORKER-FAIL "));
        if let Some(l) = ok_line {
            let v: serde_json::Value = serde_json::from_str(&l["WORKER-OK ".len()..]).unwrap_or_default();
            for k in ["images", "past_metadata", "opened", "rejected_at_door", "bases"] {
                *agg.entry(k.to_string()).or_insert(0) += v[k].as_u64().unwrap_or(0);
            }
            nt += v["nontrivial"].as_u64().unwrap_or(0);
            if let Some(m) = v["by_error"].as_object() {
                for (k, c) in m {
                    *by_error.entry(k.clone()).or_insert(0) += c.as_u64().unwrap_or(0);
                }
            }
            if let Some(s) = v["samples"].as_array() {
                for x in s {
                    ev.sample(x.clone());
                }
            }
        } else if let Some(l) = fail_line {
            let f = l["WORKER-FAIL ".len()..].trim();
            let doc: serde_json::Value = serde_json::from_str(&std::fs::read_to_string(f).unwrap_or_default()).unwrap_or_default();
            let sig = doc["signature"].as_str().unwrap_or("unknown").to_string();
            let mut replay = doc.clone();
            replay["property"] = json!("C17");
            if !env::report_violation("C17", &sig, &replay) {
                code = 1;
                ev.violations += 1;
                eprintln!("fxv: C17: [{sig}] {}", doc["message"].as_str().unwrap_or(""));
            }
            ev.set("failure", json!({"signature": sig, "message": doc["message"]}));
        } else {
            // died (abort / signal) or hung (watchdog exit 2): the journal names the image
            let status = out.status;
            let journal = outdir.join(format!("lane{lane}.current.json"));
            let hung = status.code() == Some(2);
            if let Ok(text) = std::fs::read_to_string(&journal) {
                let mut replay: serde_json::Value = serde_json::from_str(&text).unwrap_or_default();
                replay["property"] = json!("C17");
                let sig = if hung { "hang" } else { "abnormal-termination" };
                replay["signature"] = json!(sig);
                replay["message"] = json!(format!("worker ended with {status:?} while handling this image"));
                if !env::report_violation("C17", sig, &replay) {
                    code = 1;
                    ev.violations += 1;
                    eprintln!("fxv: C17: worker {lane} ended with {status:?}; the image it was handling is in the replay file");
                }
            } else if code == 0 {
                eprintln!("fxv: C17: worker {lane} ended with {status:?} without a journal; inconclusive");
                code = 2;
            }
        }
    }
    ev.evaluations = agg.get("images").copied().unwrap_or(0);
    // per-worker distinct counts are summed (image hashes of different workers differ by seed)
    for i in 0..nt {
        ev.nontrivial.insert(i);
    }
    if ev.samples.is_empty() {
        ev.samples.push(json!("no sample"));
    }
    ev.set("class_counts", json!(agg));
    ev.set("open_errors", json!(by_error));
    ev.set("workers", json!(lanes));
    ev.assumptions = vec!["images are opened with hash_bits 8, plain I/O, 2 visible CPUs; cache/TTL/ambiguous-legacy switches vary with the image".into()];
    ev.write();
    code
}


/// libFuzzer entry: bytes -> (base image, mutation list) -> open + probe in-process.
pub fn fuzz_entry(data: &[u8]) -> Result<(), String> {
    use std::sync::OnceLock;
    static BASES: OnceLock<Vec<(Config, Vec<u8>)>> = OnceLock::new();
    let bases = BASES.get_or_init(|| {
        install_panic_counter();
        env::set_watch_limit(30_000);
        build_bases(1)
    });
    if bases.is_empty() || data.len() < 3 {
        return Ok(());
    }
    let b = |i: usize| data.get(i).copied().unwrap_or(0);
    let w = |i: usize| u64::from_le_bytes([b(i), b(i + 1), b(i + 2), b(i + 3), b(i + 4), b(i + 5), b(i + 6), b(i + 7)]);
    let base = (b(0) as u16) << 8;
    let mut muts = Vec::new();
    let mut i = 1;
    while i + 10 <= data.len() + 9 && muts.len() < 5 && i < data.len() {
        let kind = b(i) % 20;
        let x16 = u16::from_le_bytes([b(i + 1), b(i + 2)]);
        let big = [0u64, 1, u64::MAX, u64::MAX - 1, u64::MAX / 4096, 1 << 32, 4 * 1024 * 1024 + 1, w(i + 3)][(b(i + 3) % 8) as usize];
        muts.push(match kind {
            0 => Mutation::BitFlip { at: u32::from_le_bytes([b(i + 1), b(i + 2), b(i + 3), b(i + 4)]), bit: b(i + 5) % 8 },
            1 => Mutation::ByteSet { at: u32::from_le_bytes([b(i + 1), b(i + 2), b(i + 3), b(i + 4)]), val: b(i + 5) },
            2 => Mutation::BlockSwap { a: x16, b: u16::from_le_bytes([b(i + 3), b(i + 4)]) },
            3 => Mutation::BlockDup { from: x16, to: u16::from_le_bytes([b(i + 3), b(i + 4)]) },
            4 => Mutation::BlockZero { at: x16 },
            5 => Mutation::BlockRandom { at: x16, seed: w(i + 3) },
            6 => Mutation::RecValueLen { which: x16, val: big },
            7 => Mutation::RecKeyLen { which: x16, val: [0u16, 4066, 4067, 4074, 4075, u16::MAX, x16][(b(i + 3) % 7) as usize] },
            8 => Mutation::RecTimestamp { which: x16, val: big },
            9 => Mutation::RecExpiry { which: x16, val: big },
            10 => Mutation::RecDuplicate { which: x16, to: u16::from_le_bytes([b(i + 3), b(i + 4)]), ts_delta: (b(i + 5) % 3) as i8 - 1 },
            11 => Mutation::MarkerRemaining { which: x16, val: big },
            12 => Mutation::MarkerState { which: x16, val: b(i + 3) },
            13 => Mutation::MarkerForge { at: x16, remaining: big, state: b(i + 4) % 3 },
            14 | 15 => Mutation::Journal {
                slot: b(i + 1) % 2,
                generation: big,
                version: [1u32, 2, 0, 3][(b(i + 4) % 4) as usize],
                extents: (0..(b(i + 5) % 4)).map(|j| ([0u32, 15, 16, 20, u32::MAX, 40][(b(i + 6 + j as usize) % 6) as usize], [0u32, 1, 3, u32::MAX, 1000][(b(i + 7 + j as usize) % 5) as usize])).collect(),
                state_override: (b(i + 8) % 3 == 0).then_some((b(i + 8) % 3) as u32),
                count_override: (b(i + 9) % 3 == 0).then_some([0u32, 1024, 1025, u32::MAX][(b(i + 9) % 4) as usize]),
            },
            16 | 17 => Mutation::Meta { copy: b(i + 1) % 2, version: [0u32, 1, 2, 3, 4, u32::MAX][(b(i + 2) % 6) as usize], device_delta: [0i64, -4096, 4096, 1, i64::MAX, i64::MIN][(b(i + 3) % 6) as usize], generation: big, block_size: [4096u32, 4096, 0, 512][(b(i + 4) % 4) as usize], records: w(i + 5), with_checksum: b(i + 5) % 2 == 0 },
            18 => Mutation::LegacyTombstone { at: x16 },
            _ => Mutation::DropSignature,
        });
        i += 10;
    }
    let spec = ImageSpec::Mutant { base, muts };
    let (img, ttl) = materialise(&spec, bases);
    if img.len() <= 16 * B || img.len() % B != 0 {
        return Ok(());
    }
    judge(&img, ttl, &mut WorkerStats::default()).map_err(|(sig, msg)| format!("[{sig}] {msg} | spec: {spec:?}"))
}

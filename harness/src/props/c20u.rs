//! C20, public-utility stage (runs inside the AddressSanitizer build, in a child process):
//! the safe public helpers outside the store - `utils::hash::{hash_key, murmur3_32,
//! simd::hash_key_aes_safe, MurmurHasher}`, `utils::json_patch::apply_json_patch`,
//! `utils::allocator::AlignedBuffer` - called with generated inputs placed so that any access
//! outside the input is visible: exactly sized heap allocations (AddressSanitizer red zones) and
//! copies that end on the last byte of a page whose successor is inaccessible (a stray read or
//! write faults even without a sanitizer). Oracle: no sanitizer report, no signal; a hash depends
//! on the bytes only (same value for every placement); buffer accounting returns to its baseline.

use std::hash::Hasher;

use proptest::prelude::*;
use serde::{Deserialize, Serialize};
use serde_json::json;

use crate::env::Tier;

#[derive(Clone, Debug, Serialize, Deserialize)]
pub struct UtilCase {
    pub key: Vec<u8>,
    pub seed: u32,
    /// offset of the heap copy inside its allocation (alignment of the start)
    pub offset: u8,
    /// AlignedBuffer capacity request and the length set on it
    pub buf_capacity: u32,
    pub buf_len: u32,
    pub doc_n: i32,
    pub patch_kind: u8,
}

fn strategy() -> BoxedStrategy<UtilCase> {
    let len = prop_oneof![3 => 0usize..20, 3 => (0usize..9, -1i32..=1).prop_map(|(m, d)| ((m * 16) as i32 + d).max(0) as usize), 2 => 20usize..200, 1 => 200usize..5000];
    (len, any::<u8>(), any::<u32>(), 0u8..17, prop_oneof![Just(0u32), 1u32..4096, Just(4096u32), 4097u32..20000], any::<u32>(), any::<i32>(), 0u8..6)
        .prop_map(|(len, fill, seed, offset, buf_capacity, buf_len, doc_n, patch_kind)| {
            let key: Vec<u8> = (0..len).map(|i| (i as u8).wrapping_mul(7).wrapping_add(fill)).collect();
            UtilCase { key, seed, offset, buf_capacity, buf_len, doc_n, patch_kind }
        })
        .boxed()
}

/// A copy of `data` that ends on the last byte of a page followed by an inaccessible page.
struct Guarded {
    base: *mut u8,
    total: usize,
    start: *const u8,
    len: usize,
}

impl Guarded {
    fn new(data: &[u8]) -> Option<Guarded> {
        let page = 4096usize;
        let pages = data.len().div_ceil(page).max(1);
        let total = (pages + 1) * page;
        unsafe {
            let base = libc::mmap(std::ptr::null_mut(), total, libc::PROT_READ | libc::PROT_WRITE, libc::MAP_PRIVATE | libc::MAP_ANONYMOUS, -1, 0);
            if base == libc::MAP_FAILED {
                return None;
            }
            let base = base as *mut u8;
            let start = base.add(pages * page - data.len());
            std::ptr::copy_nonoverlapping(data.as_ptr(), start, data.len());
            if libc::mprotect(base.add(pages * page) as *mut libc::c_void, page, libc::PROT_NONE) != 0 {
                libc::munmap(base as *mut libc::c_void, total);
                return None;
            }
            Some(Guarded { base, total, start, len: data.len() })
        }
    }
    fn slice(&self) -> &[u8] {
        unsafe { std::slice::from_raw_parts(self.start, self.len) }
    }
}

impl Drop for Guarded {
    fn drop(&mut self) {
        unsafe {
            libc::munmap(self.base as *mut libc::c_void, self.total);
        }
    }
}

pub fn run_case(c: &UtilCase) -> Result<(), String> {
    use feoxdb::utils::hash::{hash_key, murmur3_32, MurmurHasher};
    // exactly sized heap copy (red zones right behind the last byte)
    let exact: Box<[u8]> = c.key.clone().into_boxed_slice();
    // a copy at a generated offset inside a larger allocation (different alignment of the start)
    let mut padded = vec![0xEEu8; c.offset as usize];
    padded.extend_from_slice(&c.key);
    let padded: Box<[u8]> = padded.into_boxed_slice();
    let shifted = &padded[c.offset as usize..];
    let guarded = Guarded::new(&c.key);
    let h1 = hash_key(&exact);
    let h2 = hash_key(shifted);
    if h1 != h2 {
        return Err(format!("[hash-depends-on-placement] hash_key of the same {} bytes is {h1:#x} for one allocation and {h2:#x} at offset {}", c.key.len(), c.offset));
    }
    let m1 = murmur3_32(&exact, c.seed);
    let m2 = murmur3_32(shifted, c.seed);
    if m1 != m2 {
        return Err(format!("[hash-depends-on-placement] murmur3_32 of the same {} bytes differs with the placement", c.key.len()));
    }
    let mut hs = MurmurHasher::with_seed(c.seed);
    hs.write(&exact);
    if hs.finish() != m1 as u64 {
        return Err("[hasher-differs] MurmurHasher::write + finish differs from murmur3_32 with the same seed".into());
    }
    #[cfg(target_arch = "x86_64")]
    {
        if let Some(a) = feoxdb::utils::hash::simd::hash_key_aes_safe(&exact) {
            if feoxdb::utils::hash::simd::hash_key_aes_safe(shifted) != Some(a) {
                return Err("[hash-depends-on-placement] hash_key_aes_safe differs with the placement".into());
            }
        }
    }
    if let Some(g) = guarded.as_ref() {
        if hash_key(g.slice()) != h1 || murmur3_32(g.slice(), c.seed) != m1 {
            return Err(format!("[hash-depends-on-placement] a hash of the same {} bytes differs when they end on a page boundary", c.key.len()));
        }
    }
    // AlignedBuffer: capacity rounding, set_len within capacity, contents, accounting
    let before = feoxdb::utils::allocator::FeoxAllocator::get_allocated();
    {
        let mut b = feoxdb::utils::allocator::AlignedBuffer::new(c.buf_capacity as usize).map_err(|e| format!("[aligned-buffer] new({}) failed: {e:?}", c.buf_capacity))?;
        if b.capacity() < c.buf_capacity as usize {
            return Err(format!("[aligned-buffer] capacity {} below the requested {}", b.capacity(), c.buf_capacity));
        }
        let len = if b.capacity() == 0 { 0 } else { c.buf_len as usize % (b.capacity() + 1) };
        b.set_len(len);
        for (i, x) in b.as_mut_slice().iter_mut().enumerate() {
            *x = (i as u8) ^ 0x5A;
        }
        if b.len() != len || b.as_slice().iter().enumerate().any(|(i, x)| *x != (i as u8) ^ 0x5A) {
            return Err("[aligned-buffer] contents written through as_mut_slice do not read back".into());
        }
        b.clear();
        if !b.is_empty() {
            return Err("[aligned-buffer] clear() left a non-empty buffer".into());
        }
    }
    if feoxdb::utils::allocator::FeoxAllocator::get_allocated() != before {
        return Err("[aligned-buffer] accounting did not return to its baseline after the buffer was dropped".into());
    }
    // apply_json_patch on an exactly sized document / patch
    let doc = crate::seq::json_doc(1, c.doc_n as u32, 40 + c.key.len() % 300).into_boxed_slice();
    let patch: Box<[u8]> = match c.patch_kind {
        0 => b"[]".to_vec(),
        1 => format!("[{{\"op\":\"replace\",\"path\":\"/n\",\"value\":{}}}]", c.doc_n).into_bytes(),
        2 => b"[{\"op\":\"remove\",\"path\":\"/pad\"}]".to_vec(),
        3 => b"[{\"op\":\"test\",\"path\":\"/n\",\"value\":\"nope\"}]".to_vec(),
        4 => b"not json".to_vec(),
        _ => c.key.clone(),
    }
    .into_boxed_slice();
    let ours = crate::model::apply_patch(&doc, &patch);
    match (feoxdb::utils::json_patch::apply_json_patch(&doc, &patch), ours) {
        (Ok(a), Ok(b)) => {
            let (a, b): (serde_json::Value, serde_json::Value) = (serde_json::from_slice(&a).map_err(|_| "[json-patch] result is not JSON".to_string())?, serde_json::from_slice(&b).unwrap_or_default());
            if a != b {
                return Err("[json-patch] apply_json_patch result differs from the reference application of the same patch".into());
            }
        }
        (Err(_), Err(())) => {}
        (Ok(_), Err(())) => return Err("[json-patch] apply_json_patch accepted a patch the reference rejects".into()),
        (Err(e), Ok(_)) => return Err(format!("[json-patch] apply_json_patch rejected a valid patch: {e:?}")),
    }
    Ok(())
}

/// Child entry (`fxv C20U <journal>`): runs the campaign in this process; the case about to run is
/// journaled first, so a sanitizer abort or a signal can be attributed by the parent.
pub fn child(tier: Tier, seed: u64, journal: &str) -> i32 {
    use proptest::test_runner::{Config, RngAlgorithm, TestRng, TestRunner};
    let mut seed_bytes = [0u8; 32];
    seed_bytes[..8].copy_from_slice(&(seed ^ 0xC20E).to_le_bytes());
    let mut runner = TestRunner::new_with_rng(Config { cases: tier.pick(20_000, 300_000), failure_persistence: None, max_shrink_iters: 200, ..Config::default() }, TestRng::from_seed(RngAlgorithm::ChaCha, &seed_bytes));
    let n = std::cell::Cell::new(0u64);
    let edge = std::cell::Cell::new(0u64);
    let r = runner.run(&strategy(), |c| {
        let _ = std::fs::write(journal, serde_json::to_vec(&c).unwrap_or_default());
        n.set(n.get() + 1);
        if c.key.len() % 16 != 0 {
            edge.set(edge.get() + 1);
        }
        run_case(&c).map_err(proptest::test_runner::TestCaseError::fail)
    });
    let (code, failure) = match r {
        Ok(()) => (0, serde_json::Value::Null),
        Err(proptest::test_runner::TestError::Fail(reason, case)) => (1, json!({"message": reason.to_string(), "case": serde_json::to_value(&case).unwrap_or_default()})),
        Err(e) => (2, json!({"message": format!("{e}")})),
    };
    println!("C20U-SUMMARY {}", json!({"executions": n.get(), "keys_with_a_partial_last_16_byte_block": edge.get(), "failure": failure}));
    code
}

pub fn replay(path: &str) -> i32 {
    let doc: serde_json::Value = serde_json::from_str(&std::fs::read_to_string(path).expect("read")).expect("json");
    let Ok(case) = serde_json::from_value::<UtilCase>(doc["case"].clone()) else {
        println!("replay: no case in the file");
        return 2;
    };
    // a memory error ends this process through the sanitizer (abort) or a signal: both count
    match run_case(&case) {
        Err(e) => {
            println!("replay: {e}");
            println!("VIOLATION property=C20 replay={path}");
            1
        }
        Ok(()) => {
            println!("replay: the saved case passes on this tree");
            0
        }
    }
}

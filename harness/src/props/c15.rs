//! C15: offline migration (v1/v2 -> v3) is a faithful, verified, non-destructive copy.

use std::collections::BTreeMap;
use std::sync::atomic::{AtomicU64, Ordering};
use std::sync::{Arc, Mutex};

use proptest::prelude::*;
use serde::{Deserialize, Serialize};
use serde_json::json;

use crate::campaign::run_lanes;
use crate::crash;
use crate::env::{self, Evidence, Tier};
use crate::layout::{self, B};
use crate::ops::{case_strategy, Bias, Case, Config, DevSize};
use crate::trace;

#[derive(Clone, Debug, Serialize, Deserialize)]
pub enum Item {
    /// key id, generation rank (timestamp = 1000 + rank*7, ties possible), value length class, expiry class, key length class
    Record {
        key: u8,
        rank: u8,
        vlen: u16,
        blocks: u8,
        expiry: u8,
        long_key: u8,
        /// > 0: every continuation block of a multi-block value begins with the image of a legacy
        /// record of a key nobody wrote (newest timestamp of the whole file)
        #[serde(default)]
        ghost: u8,
    },
    Marker { blocks: u8 },
    /// retirement markers still in the pending state (a retirement that was interrupted)
    PendingMarker { blocks: u8 },
    Tombstone,
    Gap(u8),
}

#[derive(Clone, Debug, Serialize, Deserialize)]
pub enum DestKind {
    Absent,
    File,
    Symlink,
    Directory,
}

#[derive(Clone, Debug, Serialize, Deserialize)]
pub enum Source {
    Synth { version: u32, data_blocks: u16, items: Vec<Item>, journal_items: Vec<u8>, plain_meta: bool },
    /// image produced by the real code running a generated workload in v1/v2 compatibility mode;
    /// `crash` selects a crash image (point scaled, seed for the subset) instead of the final file
    Workload { case: Case, crash: Option<(u16, u64)> },
    /// hundreds of keys with two generations each (see `synthrec::MassSpec`): sources whose
    /// duplicate count exceeds every batch size of the scan
    Mass { spec: crate::props::synthrec::MassSpec },
}

#[derive(Clone, Debug, Serialize, Deserialize)]
pub struct MigCase {
    pub source: Source,
    pub allow_ambiguous: bool,
    pub dest: DestKind,
    /// a helper thread bumps the source's modification time as soon as the temporary
    /// destination appears (the bytes stay the same): migrate() may then fail with SourceChanged
    #[serde(default)]
    pub touch_source: bool,
    /// a helper thread creates a file at the (absent) destination path as soon as the temporary
    /// destination appears: migrate() must leave that file alone and fail with DestinationExists
    #[serde(default)]
    pub plant_dest: bool,
}

pub fn item() -> BoxedStrategy<Item> {
    prop_oneof![
        14 => (0u8..10, 0u8..6, 1u16..900, prop_oneof![4 => Just(0u8), 2 => 1u8..5], 0u8..4, prop_oneof![12 => Just(0u8), 1 => Just(1u8), 1 => Just(2u8)], prop_oneof![3 => Just(0u8), 1 => Just(1u8)])
            .prop_map(|(key, rank, vlen, blocks, expiry, long_key, ghost)| Item::Record { key, rank, vlen, blocks, expiry, long_key, ghost }),
        3 => (1u8..5).prop_map(|blocks| Item::Marker { blocks }),
        1 => (1u8..4).prop_map(|blocks| Item::PendingMarker { blocks }),
        1 => Just(Item::Tombstone),
        2 => (1u8..4).prop_map(Item::Gap),
    ]
    .boxed()
}

fn source_strategy(tier: Tier) -> BoxedStrategy<Source> {
    let synth = (
        prop_oneof![Just(1u32), Just(2u32)],
        proptest::collection::vec(item(), 0..40),
        proptest::collection::vec(any::<u8>(), 0..5),
        any::<bool>(),
        prop_oneof![20 => Just(0usize), 1 => Just(300usize), tier.pick(0u32, 1) => Just(4200usize)],
    )
        .prop_map(|(version, mut items, journal_items, plain_meta, many)| {
            // occasionally many small records: scan batches (256) and flush threshold (4096)
            for i in 0..many {
                items.push(Item::Record { key: 200u8.wrapping_add((i % 50) as u8), rank: (i / 50 % 250) as u8, vlen: 8, blocks: 0, expiry: 0, long_key: 3, ghost: 0 });
            }
            Source::Synth { version, data_blocks: 0, items, journal_items: if many > 0 { vec![] } else { journal_items }, plain_meta }
        });
    let bias = Bias {
        max_ops: 30,
        persistent: Some(true),
        versions: vec![1, 2],
        tiny_device: 10,
        large_device: 0,
        memory_limit: 0,
        invalid: 0,
        multi_block: 6,
        hostile: 0,
        big_values: false,
        flush: 8,
        reopen: 1,
        sleep: 1,
        long_keys: false,
        ttl_toggle: false,
        ..Bias::default()
    };
    let workload = (case_strategy(&bias), proptest::option::of((any::<u16>(), any::<u64>()))).prop_map(|(case, crash)| Source::Workload { case, crash });
    let mass = crate::props::synthrec::mass_strategy().prop_map(|mut spec| {
        spec.version = 1 + (spec.pairs as u32 % 2);
        spec.cuts.clear();
        Source::Mass { spec }
    });
    prop_oneof![9 => synth, 6 => workload, 1 => mass].boxed()
}

fn case_strat(tier: Tier) -> BoxedStrategy<MigCase> {
    (
        source_strategy(tier),
        any::<bool>(),
        prop_oneof![10 => Just(DestKind::Absent), 3 => Just(DestKind::File), 1 => Just(DestKind::Symlink), 1 => Just(DestKind::Directory)],
        proptest::bool::weighted(0.15),
        proptest::bool::weighted(0.2),
    )
        .prop_map(|(source, allow_ambiguous, dest, touch_source, plant)| {
            let plant_dest = plant && !touch_source && matches!(dest, DestKind::Absent);
            MigCase { source, allow_ambiguous, dest, touch_source, plant_dest }
        })
        .boxed()
}

pub const NOW: u64 = 1_700_000_000_000_000_000;

fn key_bytes(version: u32, key: u8, long_key: u8, rank: u8) -> Vec<u8> {
    match long_key {
        1 => {
            // longer than the v3 maximum (only representable in v1)
            let n = if version == 1 { 4067 + (key as usize % 8) } else { 4066 };
            let mut k = vec![b'L'; n];
            k[0] = key;
            k
        }
        2 => {
            let mut k = vec![b'M'; 4066];
            k[0] = key;
            k
        }
        3 => format!("bulk-{key:03}").into_bytes(),
        // long runs of distinct keys (id = key, the caller keeps ids apart through the rank) ...
        4 => format!("run-{:05}", rank as usize * 256 + key as usize).into_bytes(),
        // ... and keys that sort behind every one of them
        5 => format!("run-z-{key:03}").into_bytes(),
        _ => format!("k{key}").into_bytes(),
    }
}

/// Build a legacy image from the item list with the independent codec.
pub fn build_synth(version: u32, items: &[Item], journal_items: &[u8], plain_meta: bool) -> Vec<u8> {
    build_synth_ts(version, items, journal_items, plain_meta, 1000)
}

/// As `build_synth`, with generation timestamps `ts_base + rank * 7`.
pub fn build_synth_ts(version: u32, items: &[Item], journal_items: &[u8], plain_meta: bool, ts_base: u64) -> Vec<u8> {
    // size the device to fit
    let mut need = 16u64;
    for it in items {
        need += match it {
            Item::Record { key, vlen, blocks, long_key, rank, .. } => {
                let k = key_bytes(version, *key, *long_key, *rank);
                let v = value_len(version, k.len(), *vlen, *blocks);
                layout::record_blocks(version, k.len(), v) as u64
            }
            Item::Marker { blocks } | Item::PendingMarker { blocks } => *blocks as u64,
            Item::Tombstone => 1,
            Item::Gap(n) => *n as u64,
        };
    }
    let blocks = (need + 4).max(24);
    let mut img = layout::fresh_image(version, blocks, plain_meta);
    let mut s = 16u64;
    let mut extents: Vec<(u64, u64)> = Vec::new();
    for (i, it) in items.iter().enumerate() {
        match it {
            Item::Record { key, rank, vlen, blocks: nb, expiry, long_key, ghost } => {
                let k = key_bytes(version, *key, *long_key, *rank);
                let vl = value_len(version, k.len(), *vlen, *nb);
                let mut v = vec![0u8; vl];
                crate::seq::stamp_fill(&mut v, *key as u16, i as u32);
                if *ghost > 0 {
                    // bytes that parse as a record head wherever a scan would look for one if it
                    // stepped into this extent block by block
                    let over = 6 + k.len() + layout::header_len(version);
                    let total_blocks = layout::record_blocks(version, k.len(), vl);
                    for j in 1..total_blocks {
                        let gk = format!("ghost-{key}-{i}-{j}").into_bytes();
                        let gv = b"a value nobody stored".to_vec();
                        let img = layout::encode_record(version, s + j as u64, &gk, &gv, ts_base + 1_000_000, 0);
                        let glen = 6 + gk.len() + layout::header_len(version) + gv.len();
                        let at = j * B - over;
                        if at + glen <= vl {
                            v[at..at + glen].copy_from_slice(&img[..glen]);
                        }
                    }
                }
                let ts = ts_base + *rank as u64 * 7;
                let ex = match expiry {
                    0 => 0,
                    1 => NOW - 5_000_000_000, // expired
                    2 => NOW + 3_600_000_000_000,
                    _ => u64::MAX,
                };
                let ex = if version == 1 { 0 } else { ex };
                let ext = layout::encode_record(version, s, &k, &v, ts, ex);
                let n = (ext.len() / B) as u64;
                img[s as usize * B..s as usize * B + ext.len()].copy_from_slice(&ext);
                extents.push((s, n));
                s += n;
            }
            Item::Marker { blocks: nb } => {
                for b in 0..*nb as u64 {
                    let m = layout::encode_marker(s + b, *nb as u64 - b, 1);
                    img[(s + b) as usize * B..(s + b + 1) as usize * B].copy_from_slice(&m);
                }
                extents.push((s, *nb as u64));
                s += *nb as u64;
            }
            Item::PendingMarker { blocks: nb } => {
                for b in 0..*nb as u64 {
                    let m = layout::encode_marker(s + b, *nb as u64 - b, 0);
                    img[(s + b) as usize * B..(s + b + 1) as usize * B].copy_from_slice(&m);
                }
                extents.push((s, *nb as u64));
                s += *nb as u64;
            }
            Item::Tombstone => {
                img[s as usize * B..(s + 1) as usize * B].copy_from_slice(&layout::encode_legacy_tombstone());
                extents.push((s, 1));
                s += 1;
            }
            Item::Gap(n) => {
                extents.push((s, *n as u64));
                s += *n as u64;
            }
        }
    }
    // an active journal over some of the extents (a batch that was in flight)
    let mut jext: Vec<(u64, u64)> = journal_items.iter().filter_map(|j| if extents.is_empty() { None } else { Some(extents[(*j as usize * extents.len()) >> 8]) }).collect();
    // journal order is allocation order, not sector order: keep the generated order
    let mut seen = std::collections::HashSet::new();
    jext.retain(|e| seen.insert(*e));
    if !jext.is_empty() {
        let slot = layout::encode_slot(5, &jext, 2);
        img[B..B + slot.len()].copy_from_slice(&slot);
    }
    img
}

fn value_len(version: u32, klen: usize, vlen: u16, blocks: u8) -> usize {
    if blocks == 0 {
        vlen as usize
    } else {
        let over = 6 + klen + layout::header_len(version);
        (blocks as usize * B + vlen as usize % B).saturating_sub(over).max(1)
    }
}

/// What a recovery of `img` yields according to the independent codec: newest-wins over the
/// records outside active journal extents. Err(reason) when the codec expects recovery to refuse.
fn expected_contents(img: &[u8], allow_ambiguous: bool) -> Result<BTreeMap<Vec<u8>, (Vec<u8>, u64, u64)>, String> {
    let dec = layout::decode_image(img)?;
    let journal = layout::journal_winner(&dec.slots).map(|(_, _, e)| e).unwrap_or_default();
    let mut out: BTreeMap<Vec<u8>, (Vec<u8>, u64, u64)> = BTreeMap::new();
    if !allow_ambiguous && dec.classes.iter().any(|(s, c)| matches!(c, layout::BlockClass::LegacyTombstone) && !journal.iter().any(|(a, n)| *s >= *a && *s < a + n)) {
        return Err("ambiguous".into());
    }
    for r in &dec.all_records {
        if journal.iter().any(|(a, n)| r.sector < a + n && *a < r.sector + r.blocks) {
            continue;
        }
        let replace = out.get(&r.key).is_none_or(|old| old.1 <= r.ts);
        if replace {
            out.insert(r.key.clone(), (r.value.clone(), r.ts, r.expiry));
        }
    }
    Ok(out)
}

#[derive(Default, Clone)]
struct Notes {
    superseded: bool,
    multi_block: bool,
    retired: bool,
    active_journal: bool,
    outcome: String,
    records: usize,
    touched: bool,
    planted: bool,
    cli_runs: u64,
    cli_failures: u64,
    cli_failures_with_existing_destination: u64,
}

fn materialise(src: &Source) -> Option<(Vec<u8>, u32)> {
    match src {
        Source::Synth { version, items, journal_items, plain_meta, .. } => Some((build_synth(*version, items, journal_items, *plain_meta), *version)),
        Source::Mass { spec } => Some((crate::props::synthrec::mass_image(spec), spec.version)),
        Source::Workload { case, crash: c } => {
            let run = crash::run_workload(case);
            if !run.usable || run.entries.is_empty() {
                return None;
            }
            let n = run.entries.len();
            let (p, seed) = match c {
                Some((p, seed)) => ((*p as usize * n) >> 16, *seed),
                None => (n - 1, 0),
            };
            let (durable, volatile) = trace::split_at(&run.entries, p);
            let mut s = seed;
            let subset: Vec<bool> = if c.is_some() { volatile.iter().map(|_| { s = s.wrapping_mul(6364136223846793005).wrapping_add(1442695040888963407); s >> 63 == 1 }).collect() } else { vec![true; volatile.len()] };
            Some((trace::build_image(&run.base, &run.entries, &durable, &volatile, &subset, None), run.cfg.version))
        }
    }
}

fn cli_binary() -> std::path::PathBuf {
    std::path::PathBuf::from("/verif/target-cli/release/feox-migrate")
}

/// The library call, then (for cases without the mid-migration disturbances) the same migration
/// through the `feox-migrate` command built from /repo: same outcome, same destination contents,
/// and on failure the destination path as it was before (absent, or byte-identical).
fn judge(case: &MigCase, notes: &mut Notes) -> Result<(), (String, String)> {
    judge_lib(case, notes)?;
    if case.touch_source || case.plant_dest || !cli_binary().exists() || notes.outcome == "source-unusable" {
        return Ok(());
    }
    let lib_migrated = notes.outcome == "migrated";
    let Some((img, _)) = materialise(&case.source) else { return Ok(()) };
    let dir = env::scratch_dir().join(format!("migcli-{}", env::fresh_path("d").rsplit('-').next().unwrap_or("0").trim_end_matches(".feox")));
    let _ = std::fs::remove_dir_all(&dir);
    std::fs::create_dir_all(&dir).expect("mig dir");
    let src = dir.join("source.feox");
    let dst = dir.join("dest.feox");
    std::fs::write(&src, &img).expect("write source");
    let pre: Option<Vec<u8>> = match case.dest {
        DestKind::Absent => None,
        DestKind::File | DestKind::Symlink => {
            let bytes = b"somebody else's file at the destination path".to_vec();
            std::fs::write(&dst, &bytes).expect("existing destination");
            Some(bytes)
        }
        DestKind::Directory => {
            std::fs::create_dir_all(&dst).expect("dir");
            None
        }
    };
    let mut cmd = std::process::Command::new(cli_binary());
    cmd.arg("--source").arg(&src).arg("--destination").arg(&dst);
    if case.allow_ambiguous {
        cmd.arg("--allow-ambiguous-legacy-recovery");
    }
    let out = {
        let _g = env::watch("feox-migrate command");
        cmd.stdout(std::process::Stdio::null()).stderr(std::process::Stdio::piped()).output()
    };
    let verdict = (|| -> Result<(), (String, String)> {
        let out = out.map_err(|e| ("harness-cli".to_string(), format!("harness: cannot run {}: {e}", cli_binary().display())))?;
        let Some(code) = out.status.code() else {
            return Err(("cli-killed".into(), format!("feox-migrate was killed by a signal: {:?}", out.status)));
        };
        notes.cli_runs += 1;
        if std::fs::read(&src).ok().as_deref() != Some(&img[..]) {
            return Err(("source-modified".into(), "feox-migrate changed the bytes of the source file".into()));
        }
        let leftovers: Vec<String> = std::fs::read_dir(&dir).map(|d| d.filter_map(|e| e.ok()).map(|e| e.file_name().to_string_lossy().into_owned()).filter(|n| n != "source.feox" && n != "dest.feox").collect()).unwrap_or_default();
        if !leftovers.is_empty() {
            return Err(("temporary-left-behind".into(), format!("feox-migrate (exit {code}) left {leftovers:?} beside the destination")));
        }
        if code == 0 {
            if pre.is_some() || matches!(case.dest, DestKind::Directory) {
                return Err(("existing-destination-overwritten".into(), "feox-migrate reported success although the destination path already existed".into()));
            }
            if !lib_migrated {
                return Err(("cli-differs-from-library".into(), format!("feox-migrate succeeded where migrate() failed ({})", notes.outcome)));
            }
            // same contents as an independent decode of the source
            let exp = expected_contents(&img, case.allow_ambiguous).map_err(|r| ("cli-differs-from-library".to_string(), format!("feox-migrate succeeded on a source the oracle refuses ({r})")))?;
            let dimg = std::fs::read(&dst).unwrap_or_default();
            let ddec = layout::decode_image(&dimg).map_err(|e| ("destination-undecodable".to_string(), format!("independent reader cannot decode the destination written by feox-migrate: {e}")))?;
            let got: BTreeMap<Vec<u8>, (Vec<u8>, u64, u64)> = ddec.live.iter().map(|(k, r)| (k.clone(), (r.value.clone(), r.ts, r.expiry))).collect();
            if got != exp {
                return Err(("destination-contents".into(), "the destination written by feox-migrate differs from what a recovery of the source yields".into()));
            }
            Ok(())
        } else {
            notes.cli_failures += 1;
            let ok = match (&case.dest, &pre) {
                (DestKind::Absent, _) => std::fs::symlink_metadata(&dst).is_err(),
                (DestKind::Directory, _) => dst.is_dir() && std::fs::read_dir(&dst).map(|d| d.count() == 0).unwrap_or(false),
                (_, Some(bytes)) => std::fs::read(&dst).ok().as_ref() == Some(bytes),
                _ => true,
            };
            if !ok {
                if pre.is_some() {
                    notes.cli_failures_with_existing_destination += 1;
                }
                return Err(("failed-migration-left-destination".into(), format!("feox-migrate failed (exit {code}: {}) but the destination path was created, changed or removed", String::from_utf8_lossy(&out.stderr).lines().next().unwrap_or(""))));
            }
            if pre.is_some() {
                notes.cli_failures_with_existing_destination += 1;
            }
            if lib_migrated && pre.is_none() && !matches!(case.dest, DestKind::Directory) {
                return Err(("cli-differs-from-library".into(), format!("feox-migrate failed (exit {code}: {}) where migrate() succeeded", String::from_utf8_lossy(&out.stderr).lines().next().unwrap_or(""))));
            }
            Ok(())
        }
    })();
    let _ = std::fs::remove_dir_all(&dir);
    verdict
}

fn judge_lib(case: &MigCase, notes: &mut Notes) -> Result<(), (String, String)> {
    let Some((img, version)) = materialise(&case.source) else {
        notes.outcome = "source-unusable".into();
        return Ok(());
    };
    let dir = env::scratch_dir().join(format!("mig-{}", env::fresh_path("d").rsplit('-').next().unwrap_or("0").trim_end_matches(".feox")));
    let _ = std::fs::remove_dir_all(&dir);
    std::fs::create_dir_all(&dir).expect("mig dir");
    let src = dir.join("source.feox");
    let dst = dir.join("dest.feox");
    std::fs::write(&src, &img).expect("write source");
    let src_hash = env::fnv(&img);
    let pre: Option<Vec<u8>> = match case.dest {
        DestKind::Absent => None,
        DestKind::File => {
            std::fs::write(&dst, b"precious existing file").unwrap();
            Some(b"precious existing file".to_vec())
        }
        DestKind::Symlink => {
            let target = dir.join("elsewhere");
            std::fs::write(&target, b"link target").unwrap();
            std::os::unix::fs::symlink(&target, &dst).unwrap();
            Some(b"link target".to_vec())
        }
        DestKind::Directory => {
            std::fs::create_dir(&dst).unwrap();
            Some(Vec::new())
        }
    };
    if let Ok(dec) = layout::decode_image(&img) {
        let mut seen = std::collections::HashSet::new();
        notes.superseded = dec.all_records.iter().any(|r| !seen.insert(r.key.clone()));
        notes.multi_block = dec.all_records.iter().any(|r| r.blocks > 1);
        notes.retired = dec.classes.iter().any(|(_, c)| matches!(c, layout::BlockClass::Marker { .. } | layout::BlockClass::LegacyTombstone));
        notes.active_journal = layout::journal_winner(&dec.slots).is_some_and(|(_, _, e)| !e.is_empty());
        notes.records = dec.all_records.len();
    }
    let expected = expected_contents(&img, case.allow_ambiguous);
    feoxdb::verif::set_thread_clock(None);
    let toucher_stop = Arc::new(std::sync::atomic::AtomicBool::new(false));
    let toucher = case.touch_source.then(|| {
        let (dir, src, stop) = (dir.clone(), src.clone(), toucher_stop.clone());
        std::thread::spawn(move || {
            let t0 = std::time::Instant::now();
            while !stop.load(Ordering::Acquire) && t0.elapsed() < std::time::Duration::from_secs(20) {
                let tmp_exists = std::fs::read_dir(&dir).map(|d| d.filter_map(|e| e.ok()).any(|e| e.file_name().to_string_lossy().contains("feox-migrate"))).unwrap_or(false);
                if tmp_exists {
                    if let Ok(f) = std::fs::OpenOptions::new().append(true).open(&src) {
                        let _ = f.set_modified(std::time::SystemTime::now() + std::time::Duration::from_secs(7));
                    }
                    return true;
                }
                std::thread::yield_now();
            }
            false
        })
    });
    const PLANTED: &[u8] = b"planted by somebody else while the migration was running";
    let planter = (case.plant_dest && matches!(case.dest, DestKind::Absent)).then(|| {
        let (dir, dst, stop) = (dir.clone(), dst.clone(), toucher_stop.clone());
        std::thread::spawn(move || {
            use std::io::Write;
            let t0 = std::time::Instant::now();
            while !stop.load(Ordering::Acquire) && t0.elapsed() < std::time::Duration::from_secs(20) {
                let tmp_exists = std::fs::read_dir(&dir).map(|d| d.filter_map(|e| e.ok()).any(|e| e.file_name().to_string_lossy().contains("feox-migrate"))).unwrap_or(false);
                if tmp_exists {
                    return match std::fs::OpenOptions::new().write(true).create_new(true).open(&dst) {
                        Ok(mut f) => f.write_all(PLANTED).is_ok(),
                        Err(_) => false,
                    };
                }
                std::thread::yield_now();
            }
            false
        })
    });
    let result = {
        let _g = env::watch("migrate");
        env::with_visible_cpus(2, || {
            feoxdb::verif::set_thread_force_plain_io(Some(true));
            feoxdb::migrate(feoxdb::MigrationOptions::new(&src, &dst).allow_ambiguous_legacy_recovery(case.allow_ambiguous))
        })
    };
    toucher_stop.store(true, Ordering::Release);
    let touched = toucher.map(|t| t.join().unwrap_or(false)).unwrap_or(false);
    notes.touched = touched;
    let planted = planter.map(|t| t.join().unwrap_or(false)).unwrap_or(false);
    notes.planted = planted;
    if planted {
        // the planter's create_new succeeded, so the path did not exist at that moment and the
        // no-overwrite publication can only have failed afterwards: the planted file stays
        let now = std::fs::read(&dst).ok();
        let leftovers: Vec<String> = std::fs::read_dir(&dir).map(|d| d.filter_map(|e| e.ok()).map(|e| e.file_name().to_string_lossy().into_owned()).filter(|n| n.contains("feox-migrate")).collect()).unwrap_or_default();
        let verdict = if now.as_deref() != Some(PLANTED) {
            Err(("foreign-destination-destroyed".to_string(), format!("a file created at the destination path by somebody else while migrate() was running was {} (migrate() returned {})", if now.is_none() { "removed" } else { "overwritten" }, match &result { Ok(_) => "Ok".to_string(), Err(e) => format!("{e:?}") })))
        } else if result.is_ok() {
            Err(("existing-destination-overwritten".to_string(), "migrate() reported success although the destination path was taken by somebody else before it could publish".to_string()))
        } else if !leftovers.is_empty() {
            Err(("temporary-left-behind".to_string(), format!("migrate() failed and left {leftovers:?} beside the destination")))
        } else {
            Ok(())
        };
        notes.outcome = "failed:DestinationPlanted".into();
        let _ = std::fs::remove_dir_all(&dir);
        return verdict;
    }
    let cleanup = |dir: &std::path::Path| {
        let _ = std::fs::remove_dir_all(dir);
    };
    // the source is never modified
    let after = std::fs::read(&src).map(|b| env::fnv(&b)).unwrap_or(0);
    if after != src_hash {
        cleanup(&dir);
        return Err(("source-modified".into(), "migrate() changed the bytes of the source file".into()));
    }
    // no temporary file may be left behind either way
    let leftovers: Vec<String> = std::fs::read_dir(&dir).map(|d| d.filter_map(|e| e.ok()).map(|e| e.file_name().to_string_lossy().into_owned()).filter(|n| n.contains("feox-migrate")).collect()).unwrap_or_default();
    match result {
        Err(e) => {
            notes.outcome = format!("failed:{}", format!("{e:?}").split(['(', ' ', '{']).next().unwrap_or("?"));
            let ok = match (&case.dest, &pre) {
                (DestKind::Absent, _) => std::fs::symlink_metadata(&dst).is_err(),
                (DestKind::Directory, _) => dst.is_dir() && std::fs::read_dir(&dst).map(|d| d.count() == 0).unwrap_or(false),
                (_, Some(bytes)) => std::fs::read(&dst).ok().as_ref() == Some(bytes),
                _ => true,
            };
            let exp_fail = expected.is_err();
            cleanup(&dir);
            if !ok {
                return Err(("failed-migration-left-destination".into(), format!("migrate() failed with {e:?} but the destination path was created or changed")));
            }
            if !leftovers.is_empty() {
                return Err(("temporary-left-behind".into(), format!("migrate() failed with {e:?} and left {leftovers:?} beside the destination")));
            }
            // a failure must have a reason the statement allows
            let allowed = pre.is_some()
                || touched
                || exp_fail
                || matches!(e, feoxdb::MigrationError::KeyTooLarge { .. })
                || (version >= 3);
            if !allowed {
                // recovery of the source itself may legitimately refuse (e.g. a crash image whose
                // un-journaled half-written record cannot be told from garbage in v1/v2 is skipped,
                // never an error) - so any other failure on a decodable source is reported
                return Err(("unexpected-failure".into(), format!("migrate() failed with {e:?} on a legacy source the independent reader decodes without ambiguity")));
            }
            Ok(())
        }
        Ok(report) => {
            notes.outcome = "migrated".into();
            if pre.is_some() {
                cleanup(&dir);
                return Err(("existing-destination-overwritten".into(), "migrate() succeeded although the destination path already existed".into()));
            }
            if !leftovers.is_empty() {
                cleanup(&dir);
                return Err(("temporary-left-behind".into(), format!("migrate() succeeded but left {leftovers:?}")));
            }
            let exp = match expected {
                Ok(e) => e,
                Err(reason) => {
                    cleanup(&dir);
                    if reason == "ambiguous" {
                        return Err(("ambiguous-source-migrated".into(), "the source holds an ambiguous legacy deletion marker and the opt-in was not given, but migrate() succeeded".into()));
                    }
                    return Ok(());
                }
            };
            let dimg = std::fs::read(&dst).unwrap_or_default();
            let ddec = match layout::decode_image(&dimg) {
                Ok(d) => d,
                Err(e) => {
                    cleanup(&dir);
                    return Err(("destination-undecodable".into(), format!("independent reader cannot decode the destination: {e}")));
                }
            };
            if ddec.meta.version != 3 {
                cleanup(&dir);
                return Err(("destination-not-v3".into(), format!("destination metadata version {}", ddec.meta.version)));
            }
            if let Some(p) = ddec.problems.first() {
                cleanup(&dir);
                return Err(("destination-layout".into(), format!("destination: {p}")));
            }
            let got: BTreeMap<Vec<u8>, (Vec<u8>, u64, u64)> = ddec.live.iter().map(|(k, r)| (k.clone(), (r.value.clone(), r.ts, r.expiry))).collect();
            if got != exp || ddec.all_records.len() != ddec.live.len() {
                let mut diffs = Vec::new();
                for (k, v) in &exp {
                    match got.get(k) {
                        None => diffs.push(format!("{} missing", crate::model::short(k))),
                        Some(w) if w != v => diffs.push(format!("{}: expected ({}B, ts {}, exp {}) got ({}B, ts {}, exp {})", crate::model::short(k), v.0.len(), v.1, v.2, w.0.len(), w.1, w.2)),
                        _ => {}
                    }
                }
                for k in got.keys() {
                    if !exp.contains_key(k) {
                        diffs.push(format!("{} unexpected", crate::model::short(k)));
                    }
                }
                cleanup(&dir);
                return Err(("destination-contents".into(), format!("destination differs from what a recovery of the source yields: {}", diffs.join("; "))));
            }
            if report.records != exp.len() as u64 || report.source_version != version || report.destination_version != 3 {
                cleanup(&dir);
                return Err(("report-mismatch".into(), format!("report says {} records v{}->v{} but {} records were migrated from a v{version} source", report.records, report.source_version, report.destination_version, exp.len())));
            }
            // the destination opened with TTL on hides exactly the keys whose newest generation expired
            let cfg = Config { persistent: true, version: 3, cache: false, ttl: true, dev: DevSize::Tiny(0), max_memory: None, plain_io: true, legacy_plain_meta: false, visible_cpus: 2 };
            let opened = crash::open_image(&dimg, &cfg, NOW, false, false);
            cleanup(&dir);
            match opened {
                Err(e) => Err(("destination-does-not-open".into(), format!("the migrated file does not open: {e}"))),
                Ok(o) => {
                    let want: BTreeMap<Vec<u8>, (Vec<u8>, u64, u64)> = exp.into_iter().filter(|(_, (_, _, ex))| !(*ex > 0 && NOW > *ex)).collect();
                    if o.contents.map != want {
                        return Err(("destination-ttl-view".into(), format!("opening the destination with TTL on shows {} keys but {} are unexpired in the source's newest generations", o.contents.map.len(), want.len())));
                    }
                    Ok(())
                }
            }
        }
    }
}

pub fn run(tier: Tier, seed: u64, replay: Option<&str>) -> i32 {
    if let Some(path) = replay {
        let doc: serde_json::Value = serde_json::from_str(&std::fs::read_to_string(path).expect("read")).expect("json");
        let case: MigCase = serde_json::from_value(doc["case"].clone()).expect("case");
        let r = judge(&case, &mut Notes::default());
        env::wait_reaper();
        return match r {
            Err((sig, msg)) => {
                println!("replay: [{sig}] {msg}");
                println!("VIOLATION property=C15 replay={path}");
                1
            }
            Ok(()) => {
                println!("replay: the saved case passes on this tree");
                0
            }
        };
    }
    let started = std::time::Instant::now();
    let evaluations = Arc::new(AtomicU64::new(0));
    let nt = Arc::new(Mutex::new(std::collections::HashSet::<u64>::new()));
    let outcomes = Arc::new(Mutex::new(BTreeMap::<String, u64>::new()));
    let samples = Arc::new(Mutex::new(Vec::<serde_json::Value>::new()));
    let (e2, n2, o2, s2) = (evaluations.clone(), nt.clone(), outcomes.clone(), samples.clone());
    let check = move |case: &MigCase, counting: bool| -> Result<(), String> {
        let mut notes = Notes::default();
        let r = judge(case, &mut notes);
        if counting {
            e2.fetch_add(1, Ordering::Relaxed);
            let mut o = o2.lock().unwrap();
            *o.entry(notes.outcome.clone()).or_insert(0) += 1;
            if notes.active_journal {
                *o.entry("source.active_journal".into()).or_insert(0) += 1;
            }
            if notes.planted {
                *o.entry("destination_planted_during_migration".into()).or_insert(0) += 1;
            }
            if notes.cli_runs > 0 {
                *o.entry("cli.feox_migrate_runs".into()).or_insert(0) += notes.cli_runs;
                *o.entry("cli.failed_runs".into()).or_insert(0) += notes.cli_failures;
                *o.entry("cli.failed_runs_with_an_existing_destination".into()).or_insert(0) += notes.cli_failures_with_existing_destination;
            }
            if notes.touched {
                *o.entry("source.mtime_touched_during_migration".into()).or_insert(0) += 1;
            }
            if notes.records > 256 {
                *o.entry("source.more_than_256_records".into()).or_insert(0) += 1;
            }
            if matches!(case.source, Source::Workload { crash: Some(_), .. }) {
                *o.entry("source.crashed_workload".into()).or_insert(0) += 1;
            }
            if notes.superseded && notes.multi_block && notes.retired {
                let fp = env::fnv(&serde_json::to_vec(case).unwrap());
                if n2.lock().unwrap().insert(fp) {
                    let mut s = s2.lock().unwrap();
                    if s.len() < 3 {
                        let mut v = serde_json::to_value(case).unwrap();
                        if let Some(c) = v.pointer_mut("/source/Workload/case/keys") {
                            *c = json!("...");
                        }
                        s.push(json!({"case": v, "outcome": notes.outcome}));
                    }
                }
            }
        }
        r.map_err(|(sig, msg)| format!("[{sig}] {msg}"))
    };
    let found = run_lanes(case_strat(tier), tier.pick(420, 5000), 200, seed, env::threads(), check);
    env::wait_reaper();
    let mut ev = Evidence::new(
        "C15",
        tier,
        seed,
        "exploration",
        "legacy sources generated by proptest: (a) files written by the real code running generated workloads on harness-built v1/v2 devices, cleanly closed or cut at a random crash point with a random subset of un-synced writes (active journals, pending retirements); (b) images synthesised with the independent codec: duplicate generations in both scan orders and with equal timestamps, expired and far-future expiries, multi-block records, valid retirement markers, ambiguous all-zero tombstones, v1 keys longer than the v3 maximum, active journal slots over arbitrary extents, >256 records. Each with and without the ambiguity opt-in and with the destination absent or pre-existing (file, symlink, directory); in 15% of the cases a helper thread bumps the source's modification time while migrate() runs (same bytes), so migrate() may fail late with SourceChanged. Oracle: source bytes unchanged; on failure nothing at the destination path (pre-existing untouched) and no temporary left; on success the destination decodes as v3 (independent codec) to exactly the (key, value, timestamp, expiry) set the codec's newest-wins decode of the source yields, the report matches, ambiguous sources fail without the opt-in, and the destination opened with TTL on shows exactly the keys whose newest generation is unexpired. Non-trivial: source with a superseded generation, a multi-block record and a retired extent.",
    );
    ev.started = started;
    ev.evaluations = evaluations.load(Ordering::Relaxed);
    ev.nontrivial = nt.lock().unwrap().clone();
    ev.samples = samples.lock().unwrap().clone();
    if ev.samples.is_empty() {
        ev.samples.push(json!("no non-trivial source generated"));
    }
    ev.set("class_counts", json!(*outcomes.lock().unwrap()));
    let mut code = 0;
    if let Some((case, msg)) = found {
        let sig = msg.strip_prefix('[').and_then(|m| m.split(']').next()).unwrap_or("unknown").to_string();
        let replay = json!({"property": "C15", "signature": sig, "message": msg, "case": serde_json::to_value(&case).unwrap()});
        if !env::report_violation("C15", &sig, &replay) {
            code = 1;
            ev.violations = 1;
            eprintln!("fxv: C15: {msg}");
        }
        ev.set("failure", json!({"signature": sig, "message": msg}));
    }
    ev.write();
    code
}

//! C16 (unit part): ClockCache alone — accounting, remove-then-miss, eviction to the low
//! watermark without evicting referenced entries when unreferenced ones suffice.

use std::collections::BTreeMap;
use std::sync::atomic::Ordering;
use std::sync::Arc;

use bytes::Bytes;
use feoxdb::core::cache::ClockCache;
use feoxdb::stats::Statistics;
use proptest::prelude::*;
use serde::{Deserialize, Serialize};

const MB: usize = 1024 * 1024;

#[derive(Clone, Copy, Debug, Serialize, Deserialize)]
pub enum COp {
    Insert { key: u8, kb: u16, fill: u8 },
    Get { key: u8 },
    Remove { key: u8 },
    Evict,
    Clear,
    Adjust { high: u8, low: u8 },
    /// many small distinct entries: several of them share one of the cache's 16384 buckets
    Fill { n: u16, bytes: u16, tag: u8 },
}

pub fn strategy(max: usize) -> BoxedStrategy<Vec<COp>> {
    let op = prop_oneof![
        12 => (0u8..48, prop_oneof![4 => 1u16..40, 3 => 40u16..260, 1 => 260u16..900], any::<u8>()).prop_map(|(key, kb, fill)| COp::Insert { key, kb, fill }),
        10 => (0u8..48).prop_map(|key| COp::Get { key }),
        3 => (0u8..48).prop_map(|key| COp::Remove { key }),
        2 => Just(COp::Evict),
        1 => Just(COp::Clear),
        2 => (0u8..5, 0u8..4).prop_map(|(high, low)| COp::Adjust { high, low }),
        1 => (300u16..3500, 100u16..1500, 0u8..4).prop_map(|(n, bytes, tag)| COp::Fill { n, bytes, tag }),
    ];
    proptest::collection::vec(op, 1..max).boxed()
}

#[derive(Default, Clone)]
pub struct CNotes {
    pub evicting_pass_with_survivor: bool,
    pub passes: u32,
    pub removes_then_miss: u32,
    pub fills: u32,
}

fn key_of(k: u8) -> Vec<u8> {
    format!("cache-key-{k:03}-{}", "x".repeat((k % 7) as usize)).into_bytes()
}

struct Mirror {
    entries: BTreeMap<Vec<u8>, (Vec<u8>, usize, bool)>, // value, size, ref bit
    high: usize,
    low: usize,
    overhead: Option<usize>,
}

impl Mirror {
    fn usage(&self) -> usize {
        self.entries.values().map(|e| e.1).sum()
    }
}

fn snapshot(cache: &ClockCache) -> BTreeMap<Vec<u8>, (usize, bool)> {
    cache.verif_entries().into_iter().map(|(k, s, b)| (k, (s, b))).collect()
}

/// Judge one eviction pass given the state before it; updates the mirror from the real cache.
fn judge_pass(cache: &ClockCache, m: &mut Mirror, what: &str, notes: &mut CNotes) -> Result<(), String> {
    let before: BTreeMap<Vec<u8>, (usize, bool)> = m.entries.iter().map(|(k, e)| (k.clone(), (e.1, e.2))).collect();
    let usage_before: usize = before.values().map(|e| e.0).sum();
    let after = snapshot(cache);
    let usage_after: usize = after.values().map(|e| e.0).sum();
    for k in after.keys() {
        if !before.contains_key(k) {
            return Err(format!("{what}: entry {:?} appeared during an eviction pass", String::from_utf8_lossy(k)));
        }
    }
    let evicted: Vec<(&Vec<u8>, &(usize, bool))> = before.iter().filter(|(k, _)| !after.contains_key(*k)).collect();
    if usage_before <= m.low {
        if !evicted.is_empty() {
            return Err(format!("{what}: usage {usage_before} was already at or below the low watermark {} but {} entries were evicted", m.low, evicted.len()));
        }
    } else {
        notes.passes += 1;
        if usage_after > m.low {
            return Err(format!("{what}: eviction left usage {usage_after} above the low watermark {} (was {usage_before})", m.low));
        }
        let unref: usize = before.values().filter(|e| !e.1).map(|e| e.0).sum();
        if unref >= usage_before - m.low {
            if let Some((k, _)) = evicted.iter().find(|(_, e)| e.1) {
                return Err(format!("{what}: referenced entry {:?} was evicted although unreferenced entries ({unref} bytes) sufficed to reach the low watermark (needed {})", String::from_utf8_lossy(k), usage_before - m.low));
            }
        }
        let biggest = evicted.iter().map(|(_, e)| e.0).max().unwrap_or(0);
        if !evicted.is_empty() && usage_after + biggest <= m.low {
            // more was evicted than any stopping point of the sweep can explain
            let total: usize = evicted.iter().map(|(_, e)| e.0).sum();
            return Err(format!("{what}: eviction removed {total} bytes in {} entries and went to {usage_after}, at least one whole entry below the low watermark {}", evicted.len(), m.low));
        }
        if !evicted.is_empty() && before.iter().any(|(k, e)| e.1 && after.contains_key(k)) {
            notes.evicting_pass_with_survivor = true;
        }
    }
    // adopt survivors and their bits
    m.entries.retain(|k, _| after.contains_key(k));
    for (k, (s, b)) in &after {
        if let Some(e) = m.entries.get_mut(k) {
            if e.1 != *s {
                return Err(format!("{what}: entry size changed during eviction"));
            }
            e.2 = *b;
        }
    }
    Ok(())
}

pub fn run_ops(ops: &[COp], notes: &mut CNotes) -> Result<(), String> {
    let stats = Arc::new(Statistics::new());
    let cache = ClockCache::new(stats.clone());
    let mut m = Mirror { entries: BTreeMap::new(), high: 100 * MB, low: 50 * MB, overhead: None };
    // small watermarks so eviction is reached quickly
    cache.adjust_watermarks(3, 1);
    m.high = 3 * MB;
    m.low = MB;
    let mut removed_pending: Vec<Vec<u8>> = Vec::new();
    for (i, op) in ops.iter().enumerate() {
        let what = format!("op {i} {op:?}");
        match *op {
            COp::Insert { .. } | COp::Fill { .. } => {
                let pairs: Vec<(Vec<u8>, Vec<u8>)> = match *op {
                    COp::Insert { key, kb, fill } => vec![(key_of(key), vec![fill; kb as usize * 1024 + key as usize])],
                    COp::Fill { n, bytes, tag } => {
                        notes.fills += 1;
                        (0..n).map(|i| (format!("fill-{tag}-{i:05}").into_bytes(), vec![tag; bytes as usize + (i % 7) as usize])).collect()
                    }
                    _ => unreachable!(),
                };
                for (k, v) in pairs {
                let overhead = m.overhead;
                let before_usage = stats.cache_memory.load(Ordering::Relaxed);
                cache.insert(k.clone(), Bytes::from(v.clone()));
                let size = match overhead {
                    Some(o) => k.len() + v.len() + o,
                    None => {
                        // measured from the first accepted insert
                        let after = stats.cache_memory.load(Ordering::Relaxed);
                        if after == before_usage {
                            continue; // rejected as too large; nothing to measure yet
                        }
                        let o = after - before_usage - k.len() - v.len();
                        m.overhead = Some(o);
                        k.len() + v.len() + o
                    }
                };
                if size > m.high / 4 {
                    // very large values are not cached; nothing may change
                } else {
                    if m.usage() + size > m.high {
                        // the insert ran an eviction pass first; judge it on the state without the new entry
                        let mut without = snapshot(&cache);
                        let existed = m.entries.contains_key(&k);
                        if !existed {
                            without.remove(&k);
                        }
                        // judge_pass reads the cache itself: emulate by comparing against `without`
                        let before: BTreeMap<Vec<u8>, (usize, bool)> = m.entries.iter().map(|(kk, e)| (kk.clone(), (e.1, e.2))).collect();
                        let usage_before: usize = before.values().map(|e| e.0).sum();
                        let survivors: BTreeMap<Vec<u8>, (usize, bool)> = without.iter().filter(|(kk, _)| before.contains_key(*kk)).map(|(kk, e)| (kk.clone(), if *kk == k { (before[kk].0, e.1) } else { *e })).collect();
                        // the inserted key itself may have been evicted and re-added: it cannot be
                        // told apart from a survivor, so it is left out of the usage that must be <= low
                        let usage_after: usize = survivors.iter().filter(|(kk, _)| **kk != k).map(|(_, e)| e.0).sum();
                        if usage_before > m.low {
                            notes.passes += 1;
                            if usage_after > m.low {
                                return Err(format!("{what}: the eviction pass run by insert left usage {usage_after} above the low watermark {}", m.low));
                            }
                            let unref: usize = before.values().filter(|e| !e.1).map(|e| e.0).sum();
                            let evicted_ref = before.iter().find(|(kk, e)| e.1 && !survivors.contains_key(*kk));
                            if unref >= usage_before - m.low {
                                if let Some((kk, _)) = evicted_ref {
                                    return Err(format!("{what}: referenced entry {:?} was evicted by insert's eviction pass although unreferenced entries sufficed", String::from_utf8_lossy(kk)));
                                }
                            }
                            if before.iter().any(|(kk, e)| e.1 && survivors.contains_key(kk)) && survivors.len() < before.len() {
                                notes.evicting_pass_with_survivor = true;
                            }
                        }
                        m.entries.retain(|kk, _| survivors.contains_key(kk));
                        for (kk, (_, b)) in &survivors {
                            if let Some(e) = m.entries.get_mut(kk) {
                                e.2 = *b;
                            }
                        }
                    }
                    m.entries.insert(k.clone(), (v, size, true));
                    removed_pending.retain(|r| r != &k);
                }
                }
            }
            COp::Get { key } => {
                let k = key_of(key);
                let got = cache.get(&k);
                match (got, m.entries.get_mut(&k)) {
                    (Some(v), Some(e)) => {
                        if v.as_ref() != e.0.as_slice() {
                            return Err(format!("{what}: hit returned a value that is not the one inserted last"));
                        }
                        e.2 = true;
                    }
                    (None, None) => {
                        if removed_pending.contains(&k) {
                            notes.removes_then_miss += 1;
                        }
                    }
                    (Some(_), None) => {
                        let after_remove = removed_pending.contains(&k);
                        return Err(format!("{what}: hit for a key the cache should not hold{}", if after_remove { " (it was explicitly removed and not inserted since)" } else { "" }));
                    }
                    (None, Some(_)) => return Err(format!("{what}: miss for an entry that was inserted and neither removed nor evicted")),
                }
            }
            COp::Remove { key } => {
                let k = key_of(key);
                cache.remove(&k);
                m.entries.remove(&k);
                removed_pending.push(k);
            }
            COp::Evict => {
                cache.evict_entries();
                judge_pass(&cache, &mut m, &what, notes)?;
            }
            COp::Clear => {
                cache.clear();
                m.entries.clear();
            }
            COp::Adjust { high, low } => {
                cache.adjust_watermarks(high as usize, low as usize);
                let (h, l) = (high as usize * MB, low as usize * MB);
                if h > l && h <= 1024 * MB {
                    m.high = h;
                    m.low = l;
                    if m.usage() > h {
                        judge_pass(&cache, &mut m, &what, notes)?;
                    }
                }
                let s = cache.stats();
                if s.high_watermark != m.high || s.low_watermark != m.low {
                    return Err(format!("{what}: watermarks are ({}, {}) but ({}, {}) were expected", s.high_watermark, s.low_watermark, m.high, m.low));
                }
            }
        }
        // accounting: reported memory == sum of held entry sizes == mirror
        let (n, bytes) = cache.verif_totals();
        let reported = stats.cache_memory.load(Ordering::Relaxed);
        if reported != bytes {
            return Err(format!("{what}: reported cache memory {reported} != {bytes} bytes actually held in {n} entries"));
        }
        if bytes != m.usage() || n != m.entries.len() {
            let real = snapshot(&cache);
            let missing: Vec<String> = m.entries.keys().filter(|k| !real.contains_key(*k)).map(|k| String::from_utf8_lossy(k).into_owned()).collect();
            let extra: Vec<String> = real.keys().filter(|k| !m.entries.contains_key(*k)).map(|k| String::from_utf8_lossy(k).into_owned()).collect();
            return Err(format!("{what}: cache holds {n} entries / {bytes} bytes but {} entries / {} bytes are expected (missing {missing:?}, unexpected {extra:?})", m.entries.len(), m.usage()));
        }
    }
    Ok(())
}

pub fn campaign(tier: crate::env::Tier, seed: u64) -> (i32, serde_json::Value) {
    use std::sync::atomic::AtomicU64;
    use std::sync::Mutex;
    let evaluations = Arc::new(AtomicU64::new(0));
    let nt = Arc::new(Mutex::new(std::collections::HashSet::<u64>::new()));
    let passes = Arc::new(AtomicU64::new(0));
    let misses = Arc::new(AtomicU64::new(0));
    let sample = Arc::new(Mutex::new(None::<String>));
    let fills = Arc::new(AtomicU64::new(0));
    let f2 = fills.clone();
    let (e2, n2, p2, m2, s2) = (evaluations.clone(), nt.clone(), passes.clone(), misses.clone(), sample.clone());
    let check = move |ops: &Vec<COp>, counting: bool| -> Result<(), String> {
        let mut notes = CNotes::default();
        let r = run_ops(ops, &mut notes);
        if counting {
            e2.fetch_add(1, Ordering::Relaxed);
            p2.fetch_add(notes.passes as u64, Ordering::Relaxed);
            m2.fetch_add(notes.removes_then_miss as u64, Ordering::Relaxed);
            f2.fetch_add(notes.fills as u64, Ordering::Relaxed);
            if notes.evicting_pass_with_survivor {
                let fp = crate::env::fnv(format!("{ops:?}").as_bytes());
                if n2.lock().unwrap().insert(fp) {
                    let mut s = s2.lock().unwrap();
                    if s.is_none() {
                        *s = Some(format!("{:?}", &ops[..ops.len().min(40)]));
                    }
                }
            }
        }
        r
    };
    let found = crate::campaign::run_lanes(strategy(tier.pick(120, 400)), tier.pick(3000, 40_000), 500, seed, crate::env::threads(), check);
    let mut code = 0;
    let mut failure = serde_json::Value::Null;
    if let Some((ops, msg)) = found {
        let replay = serde_json::json!({"property": "C16", "engine": "cache_unit", "signature": "cache-unit", "message": msg, "ops": serde_json::to_value(&ops).unwrap()});
        if !crate::env::report_violation("C16", "cache-unit", &replay) {
            code = 1;
            eprintln!("fxv: C16 (cache unit): {msg}");
        }
        failure = serde_json::json!({"message": msg});
    }
    let summary = serde_json::json!({
        "sequences": evaluations.load(Ordering::Relaxed),
        "distinct_nontrivial": nt.lock().unwrap().len(),
        "rule": "proptest sequences of insert (1-900 KB values) / fill (300-3500 distinct entries of 100-1500 B, so several entries share one of the 16384 buckets and one bucket visit evicts more than one) / get / remove / evict_entries / clear / adjust_watermarks(0-4 MB, 0-3 MB) on a ClockCache with 3 MB / 1 MB watermarks; after every call reported memory == bytes held == mirror; a remove is never followed by a hit; every eviction pass (explicit, by insert, by adjust) ends at or below the low watermark, evicts no referenced entry when the unreferenced ones suffice, and does not overshoot by a whole entry. Non-trivial: a pass that evicted an entry while a referenced entry survived.",
        "eviction_passes": passes.load(Ordering::Relaxed),
        "misses_after_remove": misses.load(Ordering::Relaxed),
        "fills_of_many_small_entries": fills.load(Ordering::Relaxed),
        "sample": sample.lock().unwrap().clone(),
        "failure": failure,
    });
    (code, summary)
}

pub fn replay(path: &str) -> i32 {
    let doc: serde_json::Value = serde_json::from_str(&std::fs::read_to_string(path).expect("read")).expect("json");
    let ops: Vec<COp> = serde_json::from_value(doc["ops"].clone()).expect("ops");
    match run_ops(&ops, &mut CNotes::default()) {
        Err(e) => {
            println!("replay: {e}");
            println!("VIOLATION property=C16 replay={path}");
            1
        }
        Ok(()) => {
            println!("replay: the saved sequence passes on this tree");
            0
        }
    }
}


/// libFuzzer entry: bytes -> ClockCache call sequence.
pub fn fuzz_entry(data: &[u8]) -> Result<(), String> {
    let mut ops = Vec::new();
    for c in data.chunks(3).take(400) {
        let b = |j: usize| c.get(j).copied().unwrap_or(0);
        ops.push(match b(0) % 16 {
            0..=6 => COp::Insert { key: b(1) % 48, kb: 1 + (b(2) as u16 * 4) % 900, fill: b(2) },
            7..=10 => COp::Get { key: b(1) % 48 },
            11 | 12 => COp::Remove { key: b(1) % 48 },
            13 => COp::Evict,
            14 => COp::Adjust { high: b(1) % 5, low: b(2) % 4 },
            _ => {
                if b(1) % 8 == 0 {
                    COp::Clear
                } else {
                    COp::Evict
                }
            }
        });
    }
    run_ops(&ops, &mut CNotes::default())
}

//! Recovery of codec-synthesised images against an independent expected-contents oracle:
//! newest-wins per key over the records outside active journal extents, minus keys whose newest
//! generation is expired at recovery time (TTL on). Used by C11 (clause: an expired newest
//! generation never lets an older one reappear; unexpired generations are never dropped).

use std::collections::BTreeMap;
use std::sync::atomic::{AtomicU64, Ordering};
use std::sync::{Arc, Mutex};

use proptest::prelude::*;
use serde_json::json;

use crate::campaign::run_lanes;
use crate::crash;
use crate::env::{self, Tier};
use crate::layout;
use crate::ops::{Config, DevSize};
use crate::props::c15::{self, Item, NOW};

type Spec = (u32, Vec<Item>, Vec<u8>, bool);

fn expected(img: &[u8], ttl: bool) -> Option<BTreeMap<Vec<u8>, (Vec<u8>, u64, u64)>> {
    let dec = layout::decode_image(img).ok()?;
    let journal = layout::journal_winner(&dec.slots).map(|(_, _, e)| e).unwrap_or_default();
    // ambiguous legacy tombstones outside journaled extents make recovery refuse
    if dec.meta.version < 3 && dec.classes.iter().any(|(s, c)| matches!(c, layout::BlockClass::LegacyTombstone) && !journal.iter().any(|(a, n)| *s >= *a && *s < a + n)) {
        return None;
    }
    let mut out: BTreeMap<Vec<u8>, (Vec<u8>, u64, u64)> = BTreeMap::new();
    for r in &dec.all_records {
        if journal.iter().any(|(a, n)| r.sector < a + n && *a < r.sector + r.blocks) {
            continue;
        }
        if out.get(&r.key).is_none_or(|old| old.1 <= r.ts) {
            out.insert(r.key.clone(), (r.value.clone(), r.ts, r.expiry));
        }
    }
    if ttl {
        out.retain(|_, (_, _, ex)| !(*ex > 0 && NOW > *ex));
    }
    Some(out)
}

pub fn judge(spec: &Spec, notes: &mut (bool, bool)) -> Result<(), String> {
    let (version, items, journal_items, ttl) = spec;
    // keys longer than the v3 maximum only exist in v1; keep the synthesised set recoverable
    let items: Vec<Item> = items.iter().filter(|i| !matches!(i, Item::Tombstone)).cloned().collect();
    let img = c15::build_synth(*version, &items, journal_items, false);
    let Some(exp) = expected(&img, *ttl) else { return Ok(()) };
    let dec = layout::decode_image(&img).map_err(|e| format!("harness: synthesised image undecodable: {e}"))?;
    let mut newest: BTreeMap<&Vec<u8>, (u64, u64, u64)> = BTreeMap::new();
    for r in &dec.all_records {
        let e = newest.entry(&r.key).or_insert((r.ts, r.expiry, r.sector));
        if e.0 <= r.ts {
            *e = (r.ts, r.expiry, r.sector);
        }
    }
    // interesting: a key whose newest generation is expired while an older one exists
    notes.0 = dec.all_records.iter().any(|r| {
        let n = newest[&r.key];
        n.1 > 0 && NOW > n.1 && (r.ts < n.0 || (r.ts == n.0 && r.sector != n.2))
    });
    // ... and that newest generation lies at a lower sector than the older one
    notes.1 = dec.all_records.iter().any(|r| {
        let n = newest[&r.key];
        n.1 > 0 && NOW > n.1 && r.ts < n.0 && r.sector > n.2
    });
    let cfg = Config { persistent: true, version: *version, cache: false, ttl: *ttl, dev: DevSize::Tiny(0), max_memory: None, plain_io: true, legacy_plain_meta: false, visible_cpus: 2 };
    match crash::open_image(&img, &cfg, NOW, false, false) {
        Err(e) => Err(format!("[synth-open-failed] a structurally clean synthesised v{version} image does not open (ttl={ttl}): {e}")),
        Ok(o) => {
            if o.contents.map == exp {
                return Ok(());
            }
            let mut diffs = Vec::new();
            for (k, v) in &exp {
                match o.contents.map.get(k) {
                    None => diffs.push(format!("{} missing although its newest generation (ts {}, expiry {}) is live", crate::model::short(k), v.1, v.2)),
                    Some(w) if w != v => diffs.push(format!("{}: expected ts {} expiry {} got ts {} expiry {}", crate::model::short(k), v.1, v.2, w.1, w.2)),
                    _ => {}
                }
            }
            for (k, w) in &o.contents.map {
                if !exp.contains_key(k) {
                    let n = newest.get(k).copied().unwrap_or((0, 0, 0));
                    diffs.push(format!("{} exposed with ts {} although its newest generation (ts {}, expiry {}) {}", crate::model::short(k), w.1, n.0, n.1, if n.1 > 0 && NOW > n.1 { "has expired: an older generation reappeared" } else { "is something else" }));
                }
            }
            Err(format!("[synth-recovery-contents] recovery of a synthesised v{version} image (ttl={ttl}, now={NOW}) differs from the newest-wins/expiry oracle: {}", diffs.join("; ")))
        }
    }
}

pub fn strategy() -> BoxedStrategy<Spec> {
    (
        prop_oneof![Just(2u32), Just(3u32), Just(3u32)],
        proptest::collection::vec(c15::item(), 1..30),
        proptest::collection::vec(any::<u8>(), 0..3),
        proptest::bool::weighted(0.75),
    )
        .boxed()
}

pub fn campaign(property: &'static str, tier: Tier, seed: u64) -> (i32, serde_json::Value) {
    let evaluations = Arc::new(AtomicU64::new(0));
    let nt = Arc::new(Mutex::new(std::collections::HashSet::<u64>::new()));
    let lower = Arc::new(AtomicU64::new(0));
    let sample = Arc::new(Mutex::new(None::<String>));
    let (e2, n2, l2, s2) = (evaluations.clone(), nt.clone(), lower.clone(), sample.clone());
    let check = move |spec: &Spec, counting: bool| -> Result<(), String> {
        let mut notes = (false, false);
        let r = judge(spec, &mut notes);
        if counting {
            e2.fetch_add(1, Ordering::Relaxed);
            if notes.0 {
                let fp = env::fnv(format!("{spec:?}").as_bytes());
                if n2.lock().unwrap().insert(fp) {
                    let mut s = s2.lock().unwrap();
                    if s.is_none() {
                        *s = Some(format!("{spec:?}"));
                    }
                }
            }
            if notes.1 {
                l2.fetch_add(1, Ordering::Relaxed);
            }
        }
        r
    };
    let found = run_lanes(strategy(), tier.pick(1500, 20_000), 300, seed ^ 0xC11, env::threads(), check);
    env::wait_reaper();
    let mut code = 0;
    let mut failure = serde_json::Value::Null;
    if let Some((spec, msg)) = found {
        let sig = msg.strip_prefix('[').and_then(|m| m.split(']').next()).unwrap_or("synth-recovery").to_string();
        let replay = json!({"property": property, "engine": "synth_recovery", "signature": sig, "message": msg, "spec": serde_json::to_value(&spec).unwrap()});
        if !env::report_violation(property, &sig, &replay) {
            code = 1;
            eprintln!("fxv: {property} (synthesised images): {msg}");
        }
        failure = json!({"signature": sig, "message": msg});
    }
    let summary = json!({
        "images": evaluations.load(Ordering::Relaxed),
        "distinct_nontrivial": nt.lock().unwrap().len(),
        "expired_newest_below_older_generation": lower.load(Ordering::Relaxed),
        "rule": "proptest-generated v2/v3 device images built with the independent codec (duplicate generations of a key in both scan orders and with equal timestamps, expired / far-future / saturated expiries, multi-block records, complete and pending retirement markers, gaps, active journal slots over arbitrary extents) are opened with TTL on or off at a fixed virtual time; the recovered (key, value, timestamp, expiry) set must equal the codec's newest-wins decode minus the keys whose newest generation is expired (TTL on). Non-trivial: an image in which the newest generation of some key is expired while an older generation of it is still on the device.",
        "sample": sample.lock().unwrap().clone(),
        "failure": failure,
    });
    (code, summary)
}

pub fn replay(path: &str) -> i32 {
    let doc: serde_json::Value = serde_json::from_str(&std::fs::read_to_string(path).expect("read")).expect("json");
    let spec: Spec = serde_json::from_value(doc["spec"].clone()).expect("spec");
    let property = doc["property"].as_str().unwrap_or("C11").to_string();
    let r = judge(&spec, &mut (false, false));
    env::wait_reaper();
    match r {
        Err(e) => {
            println!("replay: {e}");
            println!("VIOLATION property={property} replay={path}");
            1
        }
        Ok(()) => {
            println!("replay: the saved image recovers as expected on this tree");
            0
        }
    }
}

//! Recovery of codec-synthesised images against an independent expected-contents oracle:
//! newest-wins per key over the records outside active journal extents, minus keys whose newest
//! generation is expired at recovery time (TTL on). Used by C11 (clause: an expired newest
//! generation never lets an older one reappear; unexpired generations are never dropped).

use std::collections::BTreeMap;
use std::sync::atomic::{AtomicU64, Ordering};
use std::sync::{Arc, Mutex};

use proptest::prelude::*;
use serde_json::json;

use crate::campaign::run_lanes;
use crate::crash;
use crate::env::{self, Tier};
use crate::layout;
use crate::ops::{Config, DevSize};
use crate::props::c15::{self, Item, NOW};

type Spec = (u32, Vec<Item>, Vec<u8>, bool);

fn expected(img: &[u8], ttl: bool) -> Option<BTreeMap<Vec<u8>, (Vec<u8>, u64, u64)>> {
    let dec = layout::decode_image(img).ok()?;
    let journal = layout::journal_winner(&dec.slots).map(|(_, _, e)| e).unwrap_or_default();
    // ambiguous legacy tombstones outside journaled extents make recovery refuse
    if dec.meta.version < 3 && dec.classes.iter().any(|(s, c)| matches!(c, layout::BlockClass::LegacyTombstone) && !journal.iter().any(|(a, n)| *s >= *a && *s < a + n)) {
        return None;
    }
    let mut out: BTreeMap<Vec<u8>, (Vec<u8>, u64, u64)> = BTreeMap::new();
    for r in &dec.all_records {
        if journal.iter().any(|(a, n)| r.sector < a + n && *a < r.sector + r.blocks) {
            continue;
        }
        if out.get(&r.key).is_none_or(|old| old.1 <= r.ts) {
            out.insert(r.key.clone(), (r.value.clone(), r.ts, r.expiry));
        }
    }
    if ttl {
        out.retain(|_, (_, _, ex)| !(*ex > 0 && NOW > *ex));
    }
    Some(out)
}

pub fn judge(spec: &Spec, notes: &mut (bool, bool)) -> Result<(), String> {
    let (version, items, journal_items, ttl) = spec;
    // keys longer than the v3 maximum only exist in v1; keep the synthesised set recoverable
    let items: Vec<Item> = items.iter().filter(|i| !matches!(i, Item::Tombstone)).cloned().collect();
    let img = c15::build_synth(*version, &items, journal_items, false);
    let Some(exp) = expected(&img, *ttl) else { return Ok(()) };
    let dec = layout::decode_image(&img).map_err(|e| format!("harness: synthesised image undecodable: {e}"))?;
    let mut newest: BTreeMap<&Vec<u8>, (u64, u64, u64)> = BTreeMap::new();
    for r in &dec.all_records {
        let e = newest.entry(&r.key).or_insert((r.ts, r.expiry, r.sector));
        if e.0 <= r.ts {
            *e = (r.ts, r.expiry, r.sector);
        }
    }
    // interesting: a key whose newest generation is expired while an older one exists
    notes.0 = dec.all_records.iter().any(|r| {
        let n = newest[&r.key];
        n.1 > 0 && NOW > n.1 && (r.ts < n.0 || (r.ts == n.0 && r.sector != n.2))
    });
    // ... and that newest generation lies at a lower sector than the older one
    notes.1 = dec.all_records.iter().any(|r| {
        let n = newest[&r.key];
        n.1 > 0 && NOW > n.1 && r.ts < n.0 && r.sector > n.2
    });
    let cfg = Config { persistent: true, version: *version, cache: false, ttl: *ttl, dev: DevSize::Tiny(0), max_memory: None, plain_io: true, legacy_plain_meta: false, visible_cpus: 2 };
    match crash::open_image(&img, &cfg, NOW, false, false) {
        Err(e) => Err(format!("[synth-open-failed] a structurally clean synthesised v{version} image does not open (ttl={ttl}): {e}")),
        Ok(o) => {
            if o.contents.map == exp {
                // ... and nothing else is indexed: len() and the ordered index agree with the reads
                if o.contents.len != exp.len() || o.contents.range_len != exp.len() {
                    return Err(format!("[synth-recovery-len] recovery of a synthesised v{version} image (ttl={ttl}) exposes {} keys through reads but len() is {} and a full range query returns {} (a key that expired before the reopen is still indexed)", exp.len(), o.contents.len, o.contents.range_len));
                }
                return Ok(());
            }
            let mut diffs = Vec::new();
            for (k, v) in &exp {
                match o.contents.map.get(k) {
                    None => diffs.push(format!("{} missing although its newest generation (ts {}, expiry {}) is live", crate::model::short(k), v.1, v.2)),
                    Some(w) if w != v => diffs.push(format!("{}: expected ts {} expiry {} got ts {} expiry {}", crate::model::short(k), v.1, v.2, w.1, w.2)),
                    _ => {}
                }
            }
            for (k, w) in &o.contents.map {
                if !exp.contains_key(k) {
                    let n = newest.get(k).copied().unwrap_or((0, 0, 0));
                    diffs.push(format!("{} exposed with ts {} although its newest generation (ts {}, expiry {}) {}", crate::model::short(k), w.1, n.0, n.1, if n.1 > 0 && NOW > n.1 { "has expired: an older generation reappeared" } else { "is something else" }));
                }
            }
            Err(format!("[synth-recovery-contents] recovery of a synthesised v{version} image (ttl={ttl}, now={NOW}) differs from the newest-wins/expiry oracle: {}", diffs.join("; ")))
        }
    }
}

pub fn strategy() -> BoxedStrategy<Spec> {
    (
        prop_oneof![Just(2u32), Just(3u32), Just(3u32)],
        proptest::collection::vec(c15::item(), 1..30),
        proptest::collection::vec(any::<u8>(), 0..3),
        proptest::bool::weighted(0.75),
        // one image in ten: a run of 257-700 distinct unexpired keys (more than one batch of the
        // expired-winner pass, 256) with expired keys before, inside and behind it in key order
        prop_oneof![9 => Just((0usize, 0u8, 0u8)), 1 => (257usize..700, 1u8..4, 0u8..3)],
    )
        .prop_map(|(version, mut items, journal, ttl, (run, behind, inside))| {
            for i in 0..run {
                let expired = inside > 0 && i % 97 == 13 && (i / 97) < inside as usize;
                items.push(Item::Record { key: (i % 256) as u8, rank: (i / 256) as u8, vlen: 8 + (i % 40) as u16, blocks: 0, expiry: if expired { 1 } else if i % 5 == 0 { 2 } else { 0 }, long_key: 4, ghost: 0 });
            }
            for j in 0..if run > 0 { behind } else { 0 } {
                items.push(Item::Record { key: j, rank: 1, vlen: 20, blocks: 0, expiry: 1, long_key: 5, ghost: 0 });
            }
            (version, items, if run > 0 { Vec::new() } else { journal }, ttl || run > 0)
        })
        .boxed()
}

pub fn campaign(property: &'static str, tier: Tier, seed: u64) -> (i32, serde_json::Value) {
    let evaluations = Arc::new(AtomicU64::new(0));
    let nt = Arc::new(Mutex::new(std::collections::HashSet::<u64>::new()));
    let lower = Arc::new(AtomicU64::new(0));
    let sample = Arc::new(Mutex::new(None::<String>));
    let (e2, n2, l2, s2) = (evaluations.clone(), nt.clone(), lower.clone(), sample.clone());
    let check = move |spec: &Spec, counting: bool| -> Result<(), String> {
        let mut notes = (false, false);
        let r = judge(spec, &mut notes);
        if counting {
            e2.fetch_add(1, Ordering::Relaxed);
            if notes.0 {
                let fp = env::fnv(format!("{spec:?}").as_bytes());
                if n2.lock().unwrap().insert(fp) {
                    let mut s = s2.lock().unwrap();
                    if s.is_none() {
                        *s = Some(format!("{spec:?}"));
                    }
                }
            }
            if notes.1 {
                l2.fetch_add(1, Ordering::Relaxed);
            }
        }
        r
    };
    let found = run_lanes(strategy(), tier.pick(1500, 20_000), 300, seed ^ 0xC11, env::threads(), check);
    env::wait_reaper();
    let mut code = 0;
    let mut failure = serde_json::Value::Null;
    if let Some((spec, msg)) = found {
        let sig = msg.strip_prefix('[').and_then(|m| m.split(']').next()).unwrap_or("synth-recovery").to_string();
        let replay = json!({"property": property, "engine": "synth_recovery", "signature": sig, "message": msg, "spec": serde_json::to_value(&spec).unwrap()});
        if !env::report_violation(property, &sig, &replay) {
            code = 1;
            eprintln!("fxv: {property} (synthesised images): {msg}");
        }
        failure = json!({"signature": sig, "message": msg});
    }
    let summary = json!({
        "images": evaluations.load(Ordering::Relaxed),
        "distinct_nontrivial": nt.lock().unwrap().len(),
        "expired_newest_below_older_generation": lower.load(Ordering::Relaxed),
        "rule": "proptest-generated v2/v3 device images built with the independent codec (duplicate generations of a key in both scan orders and with equal timestamps, expired / far-future / saturated expiries, multi-block records, complete and pending retirement markers, gaps, active journal slots over arbitrary extents; one image in ten with a run of 257-700 distinct keys - more than one 256-key batch of recovery's expired-winner pass - and expired keys inside and behind the run) are opened with TTL on or off at a fixed virtual time; the recovered (key, value, timestamp, expiry) set must equal the codec's newest-wins decode minus the keys whose newest generation is expired (TTL on), and len() as well as a full range query must count exactly those keys. Non-trivial: an image in which the newest generation of some key is expired while an older generation of it is still on the device.",
        "sample": sample.lock().unwrap().clone(),
        "failure": failure,
    });
    (code, summary)
}

pub fn replay(path: &str) -> i32 {
    let doc: serde_json::Value = serde_json::from_str(&std::fs::read_to_string(path).expect("read")).expect("json");
    let spec: Spec = serde_json::from_value(doc["spec"].clone()).expect("spec");
    let property = doc["property"].as_str().unwrap_or("C11").to_string();
    let r = judge(&spec, &mut (false, false));
    env::wait_reaper();
    match r {
        Err(e) => {
            println!("replay: {e}");
            println!("VIOLATION property={property} replay={path}");
            1
        }
        Ok(()) => {
            println!("replay: the saved image recovers as expected on this tree");
            0
        }
    }
}

// ------------------------------------------------------------------------------------------
// mass retirement: recoveries whose retirement set spans several journal transactions
// ------------------------------------------------------------------------------------------

/// A device image on which recovery has to retire more extents than one allocation-journal
/// transaction holds (1024 coalesced entries), so that the retirement is split across several
/// transactions and a crash between two of them is a reachable state (C04, C11).
#[derive(Clone, Debug, serde::Serialize, serde::Deserialize)]
pub struct MassSpec {
    pub version: u32,
    /// keys with two generations on the device
    pub pairs: u16,
    /// single superseded generations in front (shift the transaction boundary)
    pub lead: u8,
    /// the newest generation lies at the lower sector
    pub newest_first: bool,
    /// the two generations are adjacent (they coalesce into one journal entry)
    pub adjacent: bool,
    /// every k-th pair has an unexpired newest generation (0 = all newest generations expired)
    pub live_every: u8,
    pub ttl: bool,
    /// extra crash points: (position scaled over the recovery trace, seed of the volatile subset;
    /// seed bit 1 set: one of the un-synced writes is torn at 512-byte granularity - head block
    /// only, everything but the head block, or a generated sector mask)
    pub cuts: Vec<(u16, u64)>,
    /// blocks of the older / newest generation of every pair (0 = 1): multi-block extents are
    /// retired by multi-block marker writes, which can be torn
    #[serde(default)]
    pub older_blocks: u8,
    #[serde(default)]
    pub newest_blocks: u8,
}

pub fn mass_strategy() -> BoxedStrategy<MassSpec> {
    let shape = prop_oneof![
        5 => (380u16..760, Just(false)),
        1 => (900u16..1250, Just(true)),
    ];
    let blocks = || prop_oneof![3 => Just(1u8), 2 => Just(2u8), 1 => Just(3u8)];
    (prop_oneof![Just(3u32), Just(3u32), Just(2u32)], shape, 0u8..5, any::<bool>(), prop_oneof![3 => Just(0u8), 2 => 2u8..9], proptest::bool::weighted(0.85), proptest::collection::vec((any::<u16>(), any::<u64>()), 2..9), blocks(), blocks())
        .prop_map(|(version, (pairs, adjacent), lead, newest_first, live_every, ttl, cuts, older_blocks, newest_blocks)| MassSpec { version, pairs, lead, newest_first, adjacent, live_every, ttl, cuts, older_blocks, newest_blocks })
        .boxed()
}

pub fn mass_image(spec: &MassSpec) -> Vec<u8> {
    use crate::layout::B;
    let version = spec.version;
    let (ob, nb) = (spec.older_blocks.max(1) as u64, spec.newest_blocks.max(1) as u64);
    let blocks = 16 + spec.lead as u64 * 3 + spec.pairs as u64 * (2 + ob + nb) + 8;
    let mut img = layout::fresh_image(version, blocks, false);
    let sized = |tag: &[u8], n: u64| -> Vec<u8> {
        let mut v = tag.to_vec();
        if n > 1 {
            v.resize((n as usize - 1) * B + 100, b'.');
        }
        v
    };
    let (newest_val, older_val) = (sized(b"newest-generation", nb), sized(b"older-generation-without-ttl", ob));
    let mut s = 16u64;
    let mut put = |img: &mut Vec<u8>, key: &[u8], val: &[u8], ts: u64, ex: u64| {
        let ext = layout::encode_record(version, s, key, val, ts, ex);
        img[s as usize * B..s as usize * B + ext.len()].copy_from_slice(&ext);
        s += (ext.len() / B) as u64;
    };
    for j in 0..spec.lead {
        put(&mut img, format!("lead-{j}").as_bytes(), b"older", 5, 0);
        put(&mut img, format!("spacer-{j}").as_bytes(), b"live", 10, 0);
    }
    for i in 0..spec.pairs as u64 {
        let k = format!("pair-{i:04}").into_bytes();
        let live_winner = spec.live_every > 0 && i % spec.live_every as u64 == 0;
        let newest_expiry = if live_winner { 0 } else { NOW - 5_000_000_000 };
        let newest = (newest_val.as_slice(), 2000 + i, newest_expiry);
        let older = (older_val.as_slice(), 1000 + i, 0u64);
        let (first, second) = if spec.newest_first { (newest, older) } else { (older, newest) };
        put(&mut img, &k, first.0, first.1, first.2);
        if !spec.adjacent {
            put(&mut img, format!("live-a-{i:04}").as_bytes(), b"x", 10, 0);
        }
        put(&mut img, &k, second.0, second.1, second.2);
        put(&mut img, format!("live-b-{i:04}").as_bytes(), b"y", 10, 0);
    }
    for j in 0..spec.lead {
        put(&mut img, format!("lead-{j}").as_bytes(), b"newer", 9, 0);
    }
    img
}

const TORN_LAST_TAIL: u64 = u64::MAX - 1;
const TORN_LAST_HEAD: u64 = u64::MAX - 3;

/// (images opened, retirement spanned more than one journal transaction)
pub fn mass_judge(spec: &MassSpec, notes: &mut (u64, bool)) -> Result<(), String> {
    let img = mass_image(spec);
    let cfg = Config { persistent: true, version: spec.version, cache: false, ttl: spec.ttl, dev: DevSize::Tiny(0), max_memory: None, plain_io: true, legacy_plain_meta: false, visible_cpus: 2 };
    let exp = expected(&img, spec.ttl).ok_or_else(|| "harness: mass image not decodable".to_string())?;
    let first = crash::open_image(&img, &cfg, NOW, true, false).map_err(|e| format!("[mass-open-failed] a structurally clean v{} image with {} duplicate generations does not open: {e}", spec.version, spec.pairs))?;
    notes.0 += 1;
    let c1 = &first.contents.map;
    if *c1 != exp {
        let wrong: Vec<String> = c1.keys().filter(|k| !exp.contains_key(*k)).chain(exp.keys().filter(|k| !c1.contains_key(*k))).take(3).map(|k| String::from_utf8_lossy(k).into_owned()).collect();
        return Err(format!("[mass-first-recovery] first recovery exposes {} keys, the newest-wins/expiry oracle {}; e.g. {wrong:?}", c1.len(), exp.len()));
    }
    let rec = &first.recovery_entries;
    let journal_writes = rec.iter().filter(|e| matches!(e, crate::trace::Entry::Write { off, .. } if (1..7).contains(&(off / 4096)))).count();
    // one transaction = one journal write + one clear; more than two journal-area writes means
    // the retirement set was split
    notes.1 = journal_writes > 2;
    let mut points: Vec<(usize, Option<u64>)> = rec.iter().enumerate().filter(|(_, e)| matches!(e, crate::trace::Entry::FsyncEnd { .. })).map(|(p, _)| (p, None)).collect();
    // systematically: right before every fsync, the most recent write still in flight and torn
    // (seed 0x02 | mask kind << 4 | index = last, see below): everything but its head block, and
    // its head block only
    for (p, e) in rec.iter().enumerate() {
        if matches!(e, crate::trace::Entry::FsyncBegin) && p > 0 {
            points.push((p - 1, Some(TORN_LAST_TAIL)));
            points.push((p - 1, Some(TORN_LAST_HEAD)));
        }
    }
    if !rec.is_empty() {
        for (pos, seed) in &spec.cuts {
            points.push(((*pos as usize * rec.len()) >> 16, Some(*seed | 1)));
        }
    }
    points.sort();
    let mut it = crash::ImageIter::new(&img, rec);
    for (p, subset_seed) in points {
        let (durable, volatile) = crate::trace::split_at(rec, p);
        let mut x = subset_seed.unwrap_or(0);
        let systematic = matches!(subset_seed, Some(TORN_LAST_TAIL) | Some(TORN_LAST_HEAD));
        let subset: Vec<bool> = volatile
            .iter()
            .map(|_| match subset_seed {
                None => true,
                Some(_) if systematic => true,
                Some(_) => {
                    x ^= x << 13;
                    x ^= x >> 7;
                    x ^= x << 17;
                    x & 1 == 1
                }
            })
            .collect();
        let torn = match subset_seed {
            Some(TORN_LAST_TAIL) if !volatile.is_empty() => Some((volatile.len() - 1, !0xFFu64)),
            Some(TORN_LAST_HEAD) if !volatile.is_empty() => Some((volatile.len() - 1, 0xFFu64)),
            Some(seed) if seed & 2 != 0 && !volatile.is_empty() => {
                let idx = ((seed >> 8) as usize) % volatile.len();
                let mask = match (seed >> 4) & 3 {
                    0 => !0xFFu64,          // everything but the head block
                    1 => 0xFFu64,           // the head block only
                    2 => 0xFF00_FF00_FF00_FF00u64,
                    _ => (seed >> 16) | 1,
                };
                Some((idx, mask))
            }
            _ => None,
        };
        let nested = it.image(&durable, &volatile, &subset, torn);
        notes.0 += 1;
        let kept = subset.iter().filter(|b| **b).count();
        let at = format!("crash inside recovery after trace entry {p} of {} ({} durable writes, {kept} of {} un-synced writes present{})", rec.len(), durable.len(), volatile.len(), match torn { Some((i, m)) => format!(", un-synced write #{i} torn with sector mask {m:#x}"), None => String::new() });
        match crash::open_image(&nested, &cfg, NOW, false, false) {
            Err(e) => return Err(format!("[mass-restart-failed] {at}: restarted recovery fails: {e}")),
            Ok(o) => {
                if &o.contents.map != c1 {
                    let back: Vec<String> = o.contents.map.keys().filter(|k| !c1.contains_key(*k)).take(3).map(|k| String::from_utf8_lossy(k).into_owned()).collect();
                    let lost: Vec<String> = c1.keys().filter(|k| !o.contents.map.contains_key(*k)).take(3).map(|k| String::from_utf8_lossy(k).into_owned()).collect();
                    let changed: Vec<String> = c1.iter().filter(|(k, v)| o.contents.map.get(*k).is_some_and(|w| w != *v)).take(3).map(|(k, _)| String::from_utf8_lossy(k).into_owned()).collect();
                    return Err(format!("[mass-restart-contents] {at}: restarted recovery exposes {} keys, the first successful recovery {}; reappeared {back:?}, lost {lost:?}, changed {changed:?}", o.contents.map.len(), c1.len()));
                }
            }
        }
    }
    Ok(())
}

pub fn mass_campaign(property: &'static str, tier: Tier, seed: u64) -> (i32, serde_json::Value) {
    let images = Arc::new(AtomicU64::new(0));
    let cases = Arc::new(AtomicU64::new(0));
    let nt = Arc::new(Mutex::new(std::collections::HashSet::<u64>::new()));
    let sample = Arc::new(Mutex::new(None::<String>));
    let (i2, c2, n2, s2) = (images.clone(), cases.clone(), nt.clone(), sample.clone());
    let check = move |spec: &MassSpec, counting: bool| -> Result<(), String> {
        let mut notes = (0u64, false);
        let r = mass_judge(spec, &mut notes);
        if counting {
            c2.fetch_add(1, Ordering::Relaxed);
            i2.fetch_add(notes.0, Ordering::Relaxed);
            if notes.1 && n2.lock().unwrap().insert(env::fnv(format!("{spec:?}").as_bytes())) {
                let mut s = s2.lock().unwrap();
                if s.is_none() {
                    *s = Some(format!("{spec:?}"));
                }
            }
        }
        r
    };
    // saved minimal failures first (plain regression checks that bypass the generator)
    let mut found: Option<(MassSpec, String)> = None;
    let mut regressions = 0;
    if let Ok(dir) = std::fs::read_dir(env::verif_root().join("regressions")) {
        let mut files: Vec<_> = dir.flatten().map(|e| e.path()).collect();
        files.sort();
        for f in files {
            let Ok(text) = std::fs::read_to_string(&f) else { continue };
            let Ok(doc) = serde_json::from_str::<serde_json::Value>(&text) else { continue };
            if doc["engine"] != "mass_retirement" {
                continue;
            }
            let Ok(spec) = serde_json::from_value::<MassSpec>(doc["spec"].clone()) else { continue };
            regressions += 1;
            if found.is_none() {
                if let Err(msg) = check(&spec, true) {
                    found = Some((spec, msg));
                }
            }
        }
    }
    if found.is_none() {
        found = run_lanes(mass_strategy(), tier.pick(64, 1200), 24, seed ^ 0x3A55, env::threads(), check);
    }
    env::wait_reaper();
    let mut code = 0;
    let mut failure = serde_json::Value::Null;
    if let Some((spec, msg)) = found {
        let sig = msg.strip_prefix('[').and_then(|m| m.split(']').next()).unwrap_or("mass-retirement").to_string();
        let replay = json!({"property": property, "engine": "mass_retirement", "signature": sig, "message": msg, "spec": serde_json::to_value(&spec).unwrap()});
        if !env::report_violation(property, &sig, &replay) {
            code = 1;
            eprintln!("fxv: {property} (mass retirement): {msg}");
        }
        failure = json!({"signature": sig, "message": msg});
    }
    let summary = json!({
        "cases": cases.load(Ordering::Relaxed),
        "saved_regressions_replayed": regressions,
        "images": images.load(Ordering::Relaxed),
        "distinct_nontrivial": nt.lock().unwrap().len(),
        "rule": "proptest-generated v2/v3 images holding 380-1250 keys with two generations each (1-3 blocks per generation, newest first or last, adjacent or separated by live records, newest expired or live, 0-4 leading superseded generations shifting the boundary) so that recovery's retirement set exceeds one allocation-journal transaction (1024 coalesced extents); recovery #1 runs with the I/O trace on and must equal the codec's newest-wins/expiry decode; its own writes are then cut after every fsync, right before every fsync with the most recent write torn (head block only / everything but the head block), and at generated positions with a generated subset of the un-synced writes present and optionally one of them torn at 512-byte granularity (head block only / everything but the head block / generated mask), and each restarted recovery must expose exactly the contents of the first successful one (no older generation of an expired key reappears, no live key is lost). Non-trivial: the retirement was split across more than one journal transaction.",
        "sample": sample.lock().unwrap().clone(),
        "failure": failure,
    });
    (code, summary)
}

pub fn replay_mass(path: &str) -> i32 {
    let doc: serde_json::Value = serde_json::from_str(&std::fs::read_to_string(path).expect("read")).expect("json");
    let spec: MassSpec = serde_json::from_value(doc["spec"].clone()).expect("spec");
    let property = doc["property"].as_str().unwrap_or("C04").to_string();
    let r = mass_judge(&spec, &mut (0, false));
    env::wait_reaper();
    match r {
        Err(e) => {
            println!("replay: {e}");
            println!("VIOLATION property={property} replay={path}");
            1
        }
        Ok(()) => {
            println!("replay: every interrupted recovery of the saved image restarts to the same contents on this tree");
            0
        }
    }
}

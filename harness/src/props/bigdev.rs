//! Devices larger than 4 GiB (sparse files): records placed around and beyond byte offset 2^32,
//! so every offset computation that would truncate to 32 bits reads or writes the wrong block.
//! Stage of C10 (the documented layout addresses blocks with 64-bit sector numbers) and C05.

use std::collections::BTreeMap;
use std::os::unix::fs::FileExt;
use std::sync::atomic::{AtomicU64, Ordering};
use std::sync::{Arc, Mutex};

use proptest::prelude::*;
use serde::{Deserialize, Serialize};
use serde_json::json;

use crate::campaign::run_lanes;
use crate::crash;
use crate::env::{self, Tier};
use crate::layout::{self, B};
use crate::seq;

const GIB4_BLOCKS: u64 = 1 << 20; // 2^32 bytes / 4096

#[derive(Clone, Debug, Serialize, Deserialize)]
pub struct BigSpec {
    pub version: u32,
    /// device blocks beyond the 4 GiB line (the device is 2^20 + tail blocks long)
    pub tail: u16,
    /// pre-placed records: (offset relative to the 4 GiB line in blocks, value length, second generation elsewhere?)
    pub placed: Vec<(i16, u16, bool)>,
    /// operations after the first open: (kind, key index, value length)
    pub ops: Vec<(u8, u8, u16)>,
    pub plain_io: bool,
}

pub fn strategy() -> BoxedStrategy<BigSpec> {
    (
        prop_oneof![Just(3u32), Just(3u32), Just(2u32)],
        300u16..4000,
        proptest::collection::vec((prop_oneof![3 => -40i16..40, 2 => 40i16..250, 3 => -3i16..1], prop_oneof![3 => 1u16..3000, 2 => 3000u16..12000], proptest::bool::weighted(0.3)), 2..7),
        proptest::collection::vec((0u8..5, 0u8..10, prop_oneof![3 => 1u16..3000, 2 => 3000u16..20000]), 3..14),
        any::<bool>(),
    )
        .prop_map(|(version, tail, placed, ops, plain_io)| BigSpec { version, tail, placed, ops, plain_io })
        .boxed()
}

fn key(i: usize) -> Vec<u8> {
    format!("big-{i:02}").into_bytes()
}

fn value(i: usize, gen: u32, len: usize) -> Vec<u8> {
    let mut v = vec![0u8; len.max(8)];
    seq::stamp_fill(&mut v, i as u16, gen);
    v
}

#[derive(Default)]
pub struct BigNotes {
    pub opens: u64,
    pub beyond_line: bool,
    pub straddles_line: bool,
    pub wrote_beyond_line: bool,
}

pub fn judge(spec: &BigSpec, notes: &mut BigNotes) -> Result<(), String> {
    let total = GIB4_BLOCKS + spec.tail as u64;
    let path = env::fresh_path("bigdev");
    let f = std::fs::File::create(&path).map_err(|e| format!("harness: create: {e}"))?;
    f.set_len(total * B as u64).map_err(|e| format!("harness: set_len: {e}"))?;
    let meta = layout::Meta { version: spec.version, records: 0, size: 0, device_size: total * B as u64, fragmentation: 0, creation: 1_700_000_000, update: 1_700_000_000, generation: 1, has_checksum: true };
    let blk = layout::encode_meta(&meta, true);
    f.write_all_at(&blk, 0).unwrap();
    f.write_all_at(&blk, 7 * B as u64).unwrap();
    // place the records: sorted, non-overlapping, inside the device
    let mut want: BTreeMap<Vec<u8>, Vec<u8>> = BTreeMap::new();
    let mut next_free = 16u64;
    let mut placed: Vec<(u64, u64)> = Vec::new();
    let mut items: Vec<(i64, usize, usize, bool)> = spec.placed.iter().enumerate().map(|(i, (off, len, dup))| (*off as i64, i, *len as usize, *dup)).collect();
    items.sort();
    // older generations of the duplicated keys go to the low end of the device
    for (_, i, len, dup) in &items {
        if *dup {
            let v = value(*i, 1, *len);
            let ext = layout::encode_record(spec.version, next_free, &key(*i), &v, 1000, 0);
            f.write_all_at(&ext, next_free * B as u64).unwrap();
            next_free += (ext.len() / B) as u64;
        }
    }
    let mut cursor = 0u64;
    for (off, i, len, _) in &items {
        let v = value(*i, 2, *len);
        let blocks = layout::record_blocks(spec.version, key(*i).len(), v.len()) as u64;
        let mut s = (GIB4_BLOCKS as i64 + off).max(next_free as i64) as u64;
        s = s.max(cursor);
        if s + blocks > total {
            continue;
        }
        let ext = layout::encode_record(spec.version, s, &key(*i), &v, 2000 + *i as u64, 0);
        f.write_all_at(&ext, s * B as u64).unwrap();
        placed.push((s, blocks));
        cursor = s + blocks;
        want.insert(key(*i), v);
        if s >= GIB4_BLOCKS {
            notes.beyond_line = true;
        }
        if s < GIB4_BLOCKS && s + blocks > GIB4_BLOCKS {
            notes.straddles_line = true;
        }
    }
    drop(f);
    feoxdb::verif::set_thread_clock(None);
    let open = |notes: &mut BigNotes| -> Result<feoxdb::FeoxStore, String> {
        notes.opens += 1;
        let _g = env::watch("open big device");
        env::with_visible_cpus(2, || {
            feoxdb::verif::set_thread_force_plain_io(Some(spec.plain_io));
            feoxdb::FeoxStore::builder().hash_bits(8).no_memory_limit().device_path(path.clone()).file_size(total * B as u64).enable_caching(false).build()
        })
        .map_err(|e| format!("[bigdev-open-failed] a {total}-block device with records around block 2^20 does not open: {e:?}"))
    };
    let check = |store: &feoxdb::FeoxStore, want: &BTreeMap<Vec<u8>, Vec<u8>>, when: &str| -> Result<(), String> {
        let snap = store.verif_snapshot();
        let keys: Vec<&Vec<u8>> = snap.records.iter().map(|r| &r.key).collect();
        let wk: Vec<&Vec<u8>> = want.keys().collect();
        let mut sorted = keys.clone();
        sorted.sort();
        if sorted != wk {
            return Err(format!("[bigdev-key-set] {when}: the store holds {:?}, expected {:?}", sorted.iter().map(|k| String::from_utf8_lossy(k).into_owned()).collect::<Vec<_>>(), wk.iter().map(|k| String::from_utf8_lossy(k).into_owned()).collect::<Vec<_>>()));
        }
        for (k, v) in want {
            match store.get(k) {
                Ok(got) if got == *v => {}
                Ok(got) => return Err(format!("[bigdev-value] {when}: get({}) returned {} bytes that are not the stored value ({} bytes expected; its extent is at block {:?})", String::from_utf8_lossy(k), got.len(), v.len(), store.verif_peek(k).map(|p| p.sector))),
                Err(e) => return Err(format!("[bigdev-value] {when}: get({}) failed: {e:?} (extent at block {:?})", String::from_utf8_lossy(k), store.verif_peek(k).map(|p| p.sector))),
            }
        }
        if let Some((sig, msg)) = crash::partition_problem(&snap) {
            return Err(format!("[bigdev-{sig}] {when}: {msg}"));
        }
        Ok(())
    };
    let mut store = open(notes)?;
    let mut result = check(&store, &want, "after the first open");
    if result.is_ok() {
        let mut gen = 10u32;
        for (kind, ki, len) in &spec.ops {
            let k = key(*ki as usize);
            gen += 1;
            match kind {
                0 | 1 => {
                    let v = value(*ki as usize, gen, *len as usize);
                    if store.insert(&k, &v).is_ok() {
                        want.insert(k, v);
                    }
                }
                2 => {
                    if store.delete(&k).is_ok() {
                        want.remove(&k);
                    }
                }
                3 => {
                    if let Err(e) = store.flush() {
                        result = Err(format!("[bigdev-flush-failed] flush failed on a device with plenty of room: {e:?}"));
                    }
                }
                _ => {
                    let _ = store.flush();
                    {
                        let _g = env::watch("drop big device");
                        drop(store);
                    }
                    store = match open(notes) {
                        Ok(s) => s,
                        Err(e) => return Err(e),
                    };
                    result = check(&store, &want, "after a reopen");
                }
            }
            if result.is_err() {
                break;
            }
        }
    }
    if result.is_ok() {
        if let Err(e) = store.flush() {
            result = Err(format!("[bigdev-flush-failed] final flush failed: {e:?}"));
        }
    }
    if result.is_ok() {
        result = check(&store, &want, "after the final flush");
        notes.wrote_beyond_line = store.verif_snapshot().records.iter().any(|r| r.sector >= GIB4_BLOCKS && !placed.iter().any(|(s, _)| *s == r.sector));
    }
    if result.is_ok() {
        {
            let _g = env::watch("drop big device");
            drop(store);
        }
        match open(notes) {
            Ok(s) => {
                result = check(&s, &want, "after the final reopen");
                env::reap(s, Some(path));
            }
            Err(e) => {
                let _ = std::fs::remove_file(&path);
                return Err(e);
            }
        }
    } else {
        env::reap(store, Some(path));
    }
    result
}

pub fn campaign(property: &'static str, tier: Tier, seed: u64) -> (i32, serde_json::Value) {
    let cases = Arc::new(AtomicU64::new(0));
    let opens = Arc::new(AtomicU64::new(0));
    let nt = Arc::new(Mutex::new(std::collections::HashSet::<u64>::new()));
    let classes = Arc::new(Mutex::new(BTreeMap::<&'static str, u64>::new()));
    let (c2, o2, n2, k2) = (cases.clone(), opens.clone(), nt.clone(), classes.clone());
    let check = move |spec: &BigSpec, counting: bool| -> Result<(), String> {
        let mut notes = BigNotes::default();
        let r = judge(spec, &mut notes);
        if counting {
            c2.fetch_add(1, Ordering::Relaxed);
            o2.fetch_add(notes.opens, Ordering::Relaxed);
            let mut k = k2.lock().unwrap();
            if notes.beyond_line {
                *k.entry("record_placed_beyond_4gib").or_insert(0) += 1;
            }
            if notes.straddles_line {
                *k.entry("record_straddles_4gib").or_insert(0) += 1;
            }
            if notes.wrote_beyond_line {
                *k.entry("store_allocated_beyond_4gib").or_insert(0) += 1;
                n2.lock().unwrap().insert(env::fnv(format!("{spec:?}").as_bytes()));
            }
        }
        r
    };
    // few lanes: every open scans 4 GiB of (sparse) device
    let found = run_lanes(strategy(), tier.pick(48, 600), 10, seed ^ 0xB16D, env::threads().min(8), check);
    env::wait_reaper();
    let mut code = 0;
    let mut failure = serde_json::Value::Null;
    if let Some((spec, msg)) = found {
        let sig = msg.strip_prefix('[').and_then(|m| m.split(']').next()).unwrap_or("bigdev").to_string();
        let replay = json!({"property": property, "engine": "big_device", "signature": sig, "message": msg, "spec": serde_json::to_value(&spec).unwrap()});
        if !env::report_violation(property, &sig, &replay) {
            code = 1;
            eprintln!("fxv: {property} (devices beyond 4 GiB): {msg}");
        }
        failure = json!({"signature": sig, "message": msg});
    }
    let summary = json!({
        "cases": cases.load(Ordering::Relaxed),
        "opens": opens.load(Ordering::Relaxed),
        "distinct_nontrivial": nt.lock().unwrap().len(),
        "class_counts": *classes.lock().unwrap(),
        "rule": "proptest-generated sparse devices of 2^20 + 300..4000 blocks (just over 4 GiB) built with the independent codec: 2-6 records placed around block 2^20 (before, straddling and beyond byte offset 2^32), some with an older generation at the low end; the real store opens the device, must expose exactly the newest generations byte for byte and an exact block partition; generated inserts (1-5 blocks), deletes, flushes and reopens follow (best-fit allocation lands in the tail beyond 4 GiB), with the same comparison after every reopen and after the final flush. Non-trivial: the store itself allocated and wrote an extent beyond the 4 GiB line.",
        "failure": failure,
    });
    (code, summary)
}

pub fn replay(path: &str) -> i32 {
    let doc: serde_json::Value = serde_json::from_str(&std::fs::read_to_string(path).expect("read")).expect("json");
    let spec: BigSpec = serde_json::from_value(doc["spec"].clone()).expect("spec");
    let property = doc["property"].as_str().unwrap_or("C10").to_string();
    let r = judge(&spec, &mut BigNotes::default());
    env::wait_reaper();
    match r {
        Err(e) => {
            println!("replay: {e}");
            println!("VIOLATION property={property} replay={path}");
            1
        }
        Ok(()) => {
            println!("replay: the saved big-device case passes on this tree");
            0
        }
    }
}

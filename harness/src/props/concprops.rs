//! Engine-D properties, run in worker processes (one steered case at a time per process).

use std::collections::BTreeMap;
use std::process::{Command, Stdio};
use std::sync::Mutex;

use proptest::test_runner::{TestCaseError, TestError};
use serde_json::{json, Value};

use crate::campaign::new_runner;
use crate::conc;
use crate::env::{self, Evidence, Tier};

pub struct CaseReport {
    pub failure: Option<(String, String, Value)>,
    pub nontrivial: Option<u64>,
    pub counters: BTreeMap<String, u64>,
    pub sample: Option<Value>,
    pub evaluations: u64,
}

#[derive(Default)]
struct WorkerAgg {
    evaluations: u64,
    nontrivial: std::collections::HashSet<u64>,
    counters: BTreeMap<String, u64>,
    samples: Vec<Value>,
    last_failure: Option<(String, String, Value)>,
}

fn absorb(agg: &Mutex<WorkerAgg>, r: &CaseReport, counting: bool) {
    let mut a = agg.lock().unwrap();
    if counting {
        a.evaluations += r.evaluations;
        if let Some(fp) = r.nontrivial {
            if a.nontrivial.insert(fp) && a.samples.len() < 2 {
                if let Some(s) = &r.sample {
                    a.samples.push(s.clone());
                }
            }
        }
        for (k, v) in &r.counters {
            *a.counters.entry(k.clone()).or_insert(0) += v;
        }
    }
    if let Some(f) = &r.failure {
        a.last_failure = Some(f.clone());
    }
}

// ------------------------------------------------------------------------------------------
// C07
// ------------------------------------------------------------------------------------------

fn c07_case(p: &conc::LinProgram, reps: u32) -> CaseReport {
    let mut counters = BTreeMap::new();
    let mut nontrivial = None;
    let mut failure = None;
    let mut evaluations = 0;
    let mut sample = None;
    for rep in 0..reps {
        let mut q = p.clone();
        // vary the schedule seed per repetition
        q.schedule = match &p.schedule {
            crate::sched::Schedule::Jitter { seed, density } => crate::sched::Schedule::Jitter { seed: seed.wrapping_add(rep as u64 * 7919), density: *density },
            crate::sched::Schedule::Park { seed, parks } => crate::sched::Schedule::Park { seed: seed.wrapping_add(rep as u64 * 7919), parks: parks.clone() },
            s => s.clone(),
        };
        let out = conc::run_lin_program(&q);
        evaluations += 1;
        *counters.entry(format!("mode.{}", if p.persistent { "persistent" } else { "memory" })).or_insert(0) += 1;
        *counters.entry(format!("schedule.{}", match &p.schedule { crate::sched::Schedule::Free => "free", crate::sched::Schedule::Jitter { .. } => "jitter", crate::sched::Schedule::Park { .. } => "park" })).or_insert(0) += 1;
        *counters.entry("sched_events".into()).or_insert(0) += out.sched_events;
        *counters.entry("parks_taken".into()).or_insert(0) += out.parked;
        *counters.entry("lin_states_explored".into()).or_insert(0) += out.states_explored;
        for (a, b) in &out.overlapping {
            *counters.entry(format!("overlap.{a}+{b}")).or_insert(0) += 1;
        }
        if !out.overlapping.is_empty() {
            let fp = env::fnv(format!("{:?}", out.histories).as_bytes());
            nontrivial = Some(fp);
            if sample.is_none() {
                sample = Some(json!({"program": serde_json::to_value(&q).unwrap(), "history_of_first_key": out.histories.first().map(|h| h.iter().map(|o| format!("t{} {}-{} {:?} -> {:?}", o.thread, o.inv, o.res, o.op, o.result)).collect::<Vec<_>>())}));
            }
        }
        if let Some(msg) = out.failure {
            let sig = if msg.starts_with("open failed") { "open-failed" } else { "not-linearizable" };
            let keep: Vec<Vec<crate::lin::HOp>> = if out.histories.len() > 12 {
                // many rounds: keep the histories that do not linearize (padded to the key layout)
                out.histories.iter().enumerate().map(|(hi, h)| if !crate::lin::check_key(h, q.keys[hi % q.keys.len()].explicit, q.persistent).ok { h.clone() } else { Vec::new() }).collect()
            } else {
                out.histories.clone()
            };
            failure = Some((sig.to_string(), msg.clone(), json!({"program": serde_json::to_value(&q).unwrap(), "histories": serde_json::to_value(&keep).unwrap()})));
            break;
        }
    }
    CaseReport { failure, nontrivial, counters, sample, evaluations }
}

fn c07_rejudge(doc: &Value) -> Option<String> {
    // deterministic re-judgement of the recorded history
    let prog: conc::LinProgram = serde_json::from_value(doc["replay"]["program"].clone()).ok()?;
    let hist: Vec<Vec<crate::lin::HOp>> = serde_json::from_value(doc["replay"]["histories"].clone()).ok()?;
    for (hi, h) in hist.iter().enumerate() {
        let ki = hi % prog.keys.len();
        let r = crate::lin::check_key(h, prog.keys[ki].explicit, prog.persistent);
        if !r.ok {
            return Some(format!("recorded history {hi} (key {ki}) is not linearizable"));
        }
    }
    None
}

// ------------------------------------------------------------------------------------------
// C08
// ------------------------------------------------------------------------------------------

fn c08_case(p: &conc::RaceProgram, reps: u32) -> CaseReport {
    let mut counters = BTreeMap::new();
    let mut nontrivial = None;
    let mut failure = None;
    let mut evaluations = 0;
    let mut sample = None;
    for rep in 0..reps {
        let mut q = p.clone();
        q.schedule = match &p.schedule {
            crate::sched::Schedule::Jitter { seed, density } => crate::sched::Schedule::Jitter { seed: seed.wrapping_add(rep as u64 * 104729), density: *density },
            crate::sched::Schedule::Park { seed, parks } => crate::sched::Schedule::Park { seed: seed.wrapping_add(rep as u64 * 104729), parks: parks.clone() },
            s => s.clone(),
        };
        let out = conc::run_race_program(&q);
        evaluations += 1;
        *counters.entry(format!("cache.{}", p.cache)).or_insert(0) += 1;
        *counters.entry("observations".into()).or_insert(0) += out.observations.len() as u64;
        *counters.entry("disk_reads".into()).or_insert(0) += out.disk_reads;
        *counters.entry("reads_overlapping_a_modification".into()).or_insert(0) += out.overlapping_reads;
        *counters.entry("stale_extent_results".into()).or_insert(0) += out.stale_seen;
        *counters.entry("parks_taken".into()).or_insert(0) += out.parked;
        *counters.entry("sched_events".into()).or_insert(0) += out.sched_events;
        if p.expiry {
            *counters.entry("expiry_programs".into()).or_insert(0) += 1;
            let jumps = p.writers[0].iter().filter(|o| matches!(o, conc::WOp::Expire { .. })).count() as u64;
            *counters.entry("expiry_jumps_generated".into()).or_insert(0) += jumps;
        }
        if out.disk_reads > 0 && out.overlapping_reads > 0 {
            nontrivial = Some(env::fnv(format!("{:?}{:?}", out.states, out.observations.len()).as_bytes()) ^ rep as u64);
            if sample.is_none() {
                sample = Some(json!({"program": serde_json::to_value(&q).unwrap(), "observations": out.observations.len(), "disk_reads": out.disk_reads, "reads_overlapping_a_modification": out.overlapping_reads, "first_observations": out.observations.iter().take(6).map(|o| format!("{o:?}")).collect::<Vec<_>>()}));
            }
        }
        if let Some((sig, msg)) = out.failure {
            let obs: Vec<&conc::Observation> = out.observations.iter().rev().take(200).collect();
            failure = Some((sig, msg, json!({"program": serde_json::to_value(&q).unwrap(), "states": serde_json::to_value(&out.states).unwrap(), "last_observations": serde_json::to_value(&obs).unwrap()})));
            break;
        }
    }
    CaseReport { failure, nontrivial, counters, sample, evaluations }
}

// ------------------------------------------------------------------------------------------
// C14 (concurrent part)
// ------------------------------------------------------------------------------------------

fn c14d_case(p: &conc::ScanProgram, reps: u32) -> CaseReport {
    let mut counters = BTreeMap::new();
    let mut nontrivial = None;
    let mut failure = None;
    let mut evaluations = 0;
    let mut sample = None;
    for rep in 0..reps {
        let out = conc::run_scan_program(p);
        evaluations += 1;
        *counters.entry(format!("mode.{}", if p.persistent { "persistent" } else { "memory" })).or_insert(0) += 1;
        *counters.entry("scans".into()).or_insert(0) += out.scans;
        *counters.entry("scans_overlapping_writer_calls".into()).or_insert(0) += out.scans_overlapping_churn;
        if p.stable > 256 {
            *counters.entry("more_than_256_keys".into()).or_insert(0) += 1;
        }
        if out.scans_overlapping_churn > 0 {
            nontrivial = Some(env::fnv(format!("{p:?}{rep}").as_bytes()));
            if sample.is_none() {
                sample = Some(json!({"stable_keys": p.stable, "writers": p.writers.len(), "writer_ops": p.writers.iter().map(|w| w.len()).collect::<Vec<_>>(), "first_writer_ops": p.writers[0].iter().take(12).map(|o| format!("{o:?}")).collect::<Vec<_>>(), "scans": out.scans, "scans_overlapping_writer_calls": out.scans_overlapping_churn}));
            }
        }
        if let Some((sig, msg)) = out.failure {
            failure = Some((sig, msg, json!({"program": serde_json::to_value(p).unwrap()})));
            break;
        }
    }
    CaseReport { failure, nontrivial, counters, sample, evaluations }
}

// ------------------------------------------------------------------------------------------
// C13 (concurrent part) and C11 (sweeper part)
// ------------------------------------------------------------------------------------------

fn c13d_case(p: &conc::MemProgram) -> CaseReport {
    let out = conc::run_mem_program(p);
    let mut counters = BTreeMap::new();
    *counters.entry("usage_samples".into()).or_insert(0) += out.samples;
    *counters.entry("writes_refused".into()).or_insert(0) += out.refused;
    *counters.entry("writes_admitted".into()).or_insert(0) += out.admitted;
    *counters.entry("admitted_within_2KB_of_limit".into()).or_insert(0) += out.near_limit_admissions;
    let nontrivial = (out.refused > 0 && out.near_limit_admissions > 0).then(|| env::fnv(format!("{p:?}").as_bytes()));
    let sample = nontrivial.map(|_| json!({"limit_kb": p.limit_kb, "threads": p.threads, "ops_per_thread": p.ops.iter().map(|o| o.len()).collect::<Vec<_>>(), "refused": out.refused, "admitted": out.admitted, "peak_usage": out.peak}));
    let failure = out.failure.map(|(sig, msg)| (sig, msg, json!({"program": serde_json::to_value(p).unwrap()})));
    CaseReport { failure, nontrivial, counters, sample, evaluations: 1 }
}

fn c07m_case(p: &conc::ClockProgram) -> CaseReport {
    let out = conc::run_clock_program(p);
    let mut counters = BTreeMap::new();
    *counters.entry("rounds".into()).or_insert(0) += out.rounds;
    *counters.entry("explicit_future_timestamps_accepted".into()).or_insert(0) += out.explicit_accepted;
    *counters.entry("helper_automatic_writes".into()).or_insert(0) += out.helper_writes;
    *counters.entry("same_key_automatic_writes_accepted".into()).or_insert(0) += out.same_key_auto_accepted;
    *counters.entry(format!("mode.{}", if p.persistent { "persistent" } else { "memory" })).or_insert(0) += 1;
    let nontrivial = (out.explicit_accepted > 0 && out.helper_writes > 0).then(|| env::fnv(format!("{p:?}").as_bytes()));
    let sample = nontrivial.map(|_| json!({"program": serde_json::to_value(p).unwrap(), "rounds": out.rounds, "helper_writes": out.helper_writes}));
    let failure = out.failure.map(|(sig, msg)| (sig, msg, json!({"program": serde_json::to_value(p).unwrap()})));
    CaseReport { failure, nontrivial, counters, sample, evaluations: 1 }
}

fn c08s_case(p: &conc::PinnedProgram) -> CaseReport {
    let out = conc::run_pinned_program(p);
    let mut counters = BTreeMap::new();
    if out.reader_was_parked {
        *counters.entry("reader_parked_on_the_extent".into()).or_insert(0) += 1;
    }
    if out.removed_while_parked {
        *counters.entry("generation_removed_while_the_reader_was_parked".into()).or_insert(0) += 1;
        *counters.entry(format!("removed_while_parked.{}", ["overwrite", "delete", "update_ttl_then_overwrite", "expiry_delete", "expiry_lazy", "expiry_sweeper", "expiry_recreate"][(p.remover as usize).min(6)])).or_insert(0) += 1;
    }
    if !out.reader_result.is_empty() {
        *counters.entry(format!("reader_result.{}", out.reader_result)).or_insert(0) += 1;
    }
    let nontrivial = out.removed_while_parked.then(|| env::fnv(format!("{p:?}").as_bytes()));
    let sample = nontrivial.map(|_| json!({"program": serde_json::to_value(p).unwrap(), "reader_result": out.reader_result}));
    let failure = out.failure.map(|(sig, msg)| (sig, msg, json!({"program": serde_json::to_value(p).unwrap()})));
    CaseReport { failure, nontrivial, counters, sample, evaluations: 1 }
}

fn c16s_case(p: &conc::StaleEntryProgram) -> CaseReport {
    let out = conc::run_stale_entry_program(p);
    let mut counters = BTreeMap::new();
    if out.reader_was_parked {
        *counters.entry("reader_parked_inside_its_device_read".into()).or_insert(0) += 1;
    }
    if out.reader_saw_old {
        *counters.entry("reader_returned_the_overwritten_generation".into()).or_insert(0) += 1;
    }
    *counters.entry(format!("follow_up.{}", ["update_ttl", "persist", "get", "compare_and_swap", "none"][(p.follow as usize).min(4)])).or_insert(0) += 1;
    let nontrivial = (out.reader_saw_old && p.flush_first && !p.read_between).then(|| env::fnv(format!("{p:?}").as_bytes()));
    let sample = nontrivial.map(|_| json!({"program": serde_json::to_value(p).unwrap()}));
    let failure = out.failure.map(|(sig, msg)| (sig, msg, json!({"program": serde_json::to_value(p).unwrap()})));
    CaseReport { failure, nontrivial, counters, sample, evaluations: 1 }
}

fn c11d_case(p: &conc::SweepProgram) -> CaseReport {
    let out = conc::run_sweep_program(p);
    let mut counters = BTreeMap::new();
    *counters.entry("keys_removed_by_the_sweeper".into()).or_insert(0) += out.swept;
    *counters.entry("renewals_in_time".into()).or_insert(0) += out.renewals_ok;
    *counters.entry("renewals_too_late".into()).or_insert(0) += out.renewals_too_late;
    *counters.entry("reads".into()).or_insert(0) += out.reads;
    *counters.entry(format!("mode.{}", if p.persistent { "persistent" } else { "memory" })).or_insert(0) += 1;
    let nontrivial = (out.swept > 0 && (out.renewals_ok + out.renewals_too_late) > 0).then(|| env::fnv(format!("{p:?}").as_bytes()));
    let sample = nontrivial.map(|_| json!({"writers": p.writers, "keys_per_writer": p.keys_per_writer, "sample_size": p.sample_size, "swept": out.swept, "renewals_in_time": out.renewals_ok, "renewals_too_late": out.renewals_too_late, "first_actions": p.actions[0].iter().take(10).collect::<Vec<_>>()}));
    let failure = out.failure.map(|(sig, msg)| (sig, msg, json!({"program": serde_json::to_value(p).unwrap()})));
    CaseReport { failure, nontrivial, counters, sample, evaluations: 1 }
}

// ------------------------------------------------------------------------------------------
// C18 (termination) - the same programs are the body of the C20 sanitizer runs
// ------------------------------------------------------------------------------------------

fn c18_case(p: &conc::TermProgram, journal: Option<&str>) -> CaseReport {
    if let Some(j) = journal {
        let _ = std::fs::write(j, serde_json::to_vec(&json!({"program": serde_json::to_value(p).unwrap()})).unwrap());
    }
    let out = conc::run_term_program(p);
    let mut counters = BTreeMap::new();
    *counters.entry(format!("workers.{}", (p.visible_cpus / 2).max(1))).or_insert(0) += 1;
    *counters.entry("calls".into()).or_insert(0) += out.calls;
    *counters.entry("flush_errors".into()).or_insert(0) += out.flush_errors;
    *counters.entry("flush_out_of_space".into()).or_insert(0) += out.out_of_space;
    *counters.entry("faults_injected".into()).or_insert(0) += out.faults_injected;
    *counters.entry(format!("drop.{:?}", p.drop_mode)).or_insert(0) += 1;
    if p.fail_from > 0 {
        *counters.entry("failing_device".into()).or_insert(0) += 1;
    }
    if p.pinned_readers > 0 {
        *counters.entry("programs_with_readers_pinned_to_one_cpu".into()).or_insert(0) += 1;
    }
    let nontrivial = (out.threads_inside >= 3 || out.out_of_space > 0 || out.faults_injected > 0).then(|| env::fnv(format!("{p:?}").as_bytes()));
    let sample = nontrivial.map(|_| json!({"program": serde_json::to_value(p).unwrap(), "calls": out.calls, "max_threads_inside_the_store": out.threads_inside, "flush_out_of_space": out.out_of_space, "faults_injected": out.faults_injected}));
    let failure = out.panicked.then(|| ("thread-panicked".to_string(), "a thread panicked inside the store during a contention program".to_string(), json!({"program": serde_json::to_value(p).unwrap()})));
    CaseReport { failure, nontrivial, counters, sample, evaluations: 1 }
}

/// `fxv C18 --single <journal> <limit_ms>`: re-run one journaled program in isolation.
pub fn single(path: &str, limit_ms: u64) -> i32 {
    env::set_watch_limit(limit_ms);
    let doc: Value = serde_json::from_str(&std::fs::read_to_string(path).expect("read")).expect("json");
    let Ok(p) = serde_json::from_value::<conc::TermProgram>(doc["program"].clone()) else { return 64 };
    let r = c18_case(&p, None);
    if r.failure.is_some() {
        println!("SINGLE-FAIL");
        return 1;
    }
    println!("SINGLE-OK");
    0
}

// ------------------------------------------------------------------------------------------
// worker / parent plumbing
// ------------------------------------------------------------------------------------------

pub fn worker(id: &str, seed: u64, lane: u64, count: u32, outdir: &str, tier: Tier) -> i32 {
    env::set_watch_limit(if id == "C18" { tier.pick(20_000, 30_000) } else { tier.pick(40_000, 90_000) });
    let agg = Mutex::new(WorkerAgg::default());
    let failed = std::sync::atomic::AtomicBool::new(false);
    let mut runner = new_runner(count, tier.pick(30, 80), seed, 5000 + lane);
    let result: Result<(), TestError<Value>> = match id {
        "C07" => {
            let strat = conc::lin_program_strategy();
            runner
                .run(&strat, |p| {
                    let counting = !failed.load(std::sync::atomic::Ordering::Relaxed);
                    let r = c07_case(&p, tier.pick(3, 6));
                    absorb(&agg, &r, counting);
                    match r.failure {
                        Some((sig, msg, _)) => {
                            failed.store(true, std::sync::atomic::Ordering::Relaxed);
                            Err(TestCaseError::fail(format!("[{sig}] {msg}")))
                        }
                        None => Ok(()),
                    }
                })
                .map_err(|e| match e {
                    TestError::Fail(r, v) => TestError::Fail(r, serde_json::to_value(&v).unwrap()),
                    TestError::Abort(r) => TestError::Abort(r),
                })
        }
        "C08" => {
            let strat = conc::race_program_strategy();
            runner
                .run(&strat, |p| {
                    let counting = !failed.load(std::sync::atomic::Ordering::Relaxed);
                    let r = c08_case(&p, tier.pick(2, 4));
                    absorb(&agg, &r, counting);
                    match r.failure {
                        Some((sig, msg, _)) => {
                            failed.store(true, std::sync::atomic::Ordering::Relaxed);
                            Err(TestCaseError::fail(format!("[{sig}] {msg}")))
                        }
                        None => Ok(()),
                    }
                })
                .map_err(|e| match e {
                    TestError::Fail(r, v) => TestError::Fail(r, serde_json::to_value(&v).unwrap()),
                    TestError::Abort(r) => TestError::Abort(r),
                })
        }
        "C16D" => {
            use proptest::strategy::Strategy;
            let strat = conc::race_program_strategy().prop_map(|mut p| {
                p.cache = true;
                p
            });
            runner
                .run(&strat, |p| {
                    let counting = !failed.load(std::sync::atomic::Ordering::Relaxed);
                    let r = c08_case(&p, tier.pick(2, 4));
                    absorb(&agg, &r, counting);
                    match r.failure {
                        Some((sig, msg, _)) => {
                            failed.store(true, std::sync::atomic::Ordering::Relaxed);
                            Err(TestCaseError::fail(format!("[{sig}] {msg}")))
                        }
                        None => Ok(()),
                    }
                })
                .map_err(|e| match e {
                    TestError::Fail(r, v) => TestError::Fail(r, serde_json::to_value(&v).unwrap()),
                    TestError::Abort(r) => TestError::Abort(r),
                })
        }
        "C14D" => {
            let strat = conc::scan_program_strategy();
            runner
                .run(&strat, |p| {
                    let counting = !failed.load(std::sync::atomic::Ordering::Relaxed);
                    let r = c14d_case(&p, tier.pick(2, 4));
                    absorb(&agg, &r, counting);
                    match r.failure {
                        Some((sig, msg, _)) => {
                            failed.store(true, std::sync::atomic::Ordering::Relaxed);
                            Err(TestCaseError::fail(format!("[{sig}] {msg}")))
                        }
                        None => Ok(()),
                    }
                })
                .map_err(|e| match e {
                    TestError::Fail(r, v) => TestError::Fail(r, serde_json::to_value(&v).unwrap()),
                    TestError::Abort(r) => TestError::Abort(r),
                })
        }
        "C13D" => {
            let strat = conc::mem_program_strategy();
            runner
                .run(&strat, |p| {
                    let counting = !failed.load(std::sync::atomic::Ordering::Relaxed);
                    let r = c13d_case(&p);
                    absorb(&agg, &r, counting);
                    match r.failure {
                        Some((sig, msg, _)) => {
                            failed.store(true, std::sync::atomic::Ordering::Relaxed);
                            Err(TestCaseError::fail(format!("[{sig}] {msg}")))
                        }
                        None => Ok(()),
                    }
                })
                .map_err(|e| match e {
                    TestError::Fail(r, v) => TestError::Fail(r, serde_json::to_value(&v).unwrap()),
                    TestError::Abort(r) => TestError::Abort(r),
                })
        }
        "C07M" => {
            let strat = conc::clock_program_strategy();
            runner
                .run(&strat, |p| {
                    let counting = !failed.load(std::sync::atomic::Ordering::Relaxed);
                    let r = c07m_case(&p);
                    absorb(&agg, &r, counting);
                    match r.failure {
                        Some((sig, msg, _)) => {
                            failed.store(true, std::sync::atomic::Ordering::Relaxed);
                            Err(TestCaseError::fail(format!("[{sig}] {msg}")))
                        }
                        None => Ok(()),
                    }
                })
                .map_err(|e| match e {
                    TestError::Fail(r, v) => TestError::Fail(r, serde_json::to_value(&v).unwrap()),
                    TestError::Abort(r) => TestError::Abort(r),
                })
        }
        "C08S" => {
            let strat = conc::pinned_strategy();
            runner
                .run(&strat, |p| {
                    let counting = !failed.load(std::sync::atomic::Ordering::Relaxed);
                    let r = c08s_case(&p);
                    absorb(&agg, &r, counting);
                    match r.failure {
                        Some((sig, msg, _)) => {
                            failed.store(true, std::sync::atomic::Ordering::Relaxed);
                            Err(TestCaseError::fail(format!("[{sig}] {msg}")))
                        }
                        None => Ok(()),
                    }
                })
                .map_err(|e| match e {
                    TestError::Fail(r, v) => TestError::Fail(r, serde_json::to_value(&v).unwrap()),
                    TestError::Abort(r) => TestError::Abort(r),
                })
        }
        "C16S" => {
            let strat = conc::stale_entry_strategy();
            runner
                .run(&strat, |p| {
                    let counting = !failed.load(std::sync::atomic::Ordering::Relaxed);
                    let r = c16s_case(&p);
                    absorb(&agg, &r, counting);
                    match r.failure {
                        Some((sig, msg, _)) => {
                            failed.store(true, std::sync::atomic::Ordering::Relaxed);
                            Err(TestCaseError::fail(format!("[{sig}] {msg}")))
                        }
                        None => Ok(()),
                    }
                })
                .map_err(|e| match e {
                    TestError::Fail(r, v) => TestError::Fail(r, serde_json::to_value(&v).unwrap()),
                    TestError::Abort(r) => TestError::Abort(r),
                })
        }
        "C11D" => {
            let strat = conc::sweep_program_strategy();
            runner
                .run(&strat, |p| {
                    let counting = !failed.load(std::sync::atomic::Ordering::Relaxed);
                    let r = c11d_case(&p);
                    absorb(&agg, &r, counting);
                    match r.failure {
                        Some((sig, msg, _)) => {
                            failed.store(true, std::sync::atomic::Ordering::Relaxed);
                            Err(TestCaseError::fail(format!("[{sig}] {msg}")))
                        }
                        None => Ok(()),
                    }
                })
                .map_err(|e| match e {
                    TestError::Fail(r, v) => TestError::Fail(r, serde_json::to_value(&v).unwrap()),
                    TestError::Abort(r) => TestError::Abort(r),
                })
        }
        "C18" => {
            let strat = conc::term_program_strategy();
            let journal = format!("{outdir}/lane{lane}.current.json");
            runner
                .run(&strat, |p| {
                    let counting = !failed.load(std::sync::atomic::Ordering::Relaxed);
                    let r = c18_case(&p, Some(&journal));
                    absorb(&agg, &r, counting);
                    match r.failure {
                        Some((sig, msg, _)) => {
                            failed.store(true, std::sync::atomic::Ordering::Relaxed);
                            Err(TestCaseError::fail(format!("[{sig}] {msg}")))
                        }
                        None => Ok(()),
                    }
                })
                .map_err(|e| match e {
                    TestError::Fail(r, v) => TestError::Fail(r, serde_json::to_value(&v).unwrap()),
                    TestError::Abort(r) => TestError::Abort(r),
                })
        }
        _ => {
            println!("WORKER-ERROR unknown id {id}");
            return 2;
        }
    };
    env::wait_reaper();
    let a = agg.lock().unwrap();
    match result {
        Ok(()) => {
            println!(
                "WORKER-OK {}",
                json!({"evaluations": a.evaluations, "nontrivial": a.nontrivial.iter().collect::<Vec<_>>(), "counters": a.counters, "samples": a.samples})
            );
            0
        }
        Err(TestError::Fail(reason, minimal)) => {
            let (sig, msg, replay) = a.last_failure.clone().unwrap_or(("unknown".into(), reason.message().to_string(), Value::Null));
            let fail = format!("{outdir}/lane{lane}.fail.json");
            let _ = std::fs::write(&fail, serde_json::to_vec(&json!({"signature": sig, "message": msg, "minimal_case": minimal, "replay": replay})).unwrap());
            println!("WORKER-FAIL {fail}");
            1
        }
        Err(TestError::Abort(r)) => {
            println!("WORKER-ERROR aborted {r}");
            2
        }
    }
}

pub struct Meta {
    pub cases: u32,
    pub rule: &'static str,
    pub assumptions: Vec<String>,
}

fn meta(id: &str, tier: Tier) -> Meta {
    match id {
        "C07" => Meta {
            cases: tier.pick(1600, 24_000),
            rule: "proptest-generated concurrent programs: 2-4 threads x 2-6 calls (get, insert, delete, compare-and-swap, increment, insert-if-absent, JSON patch) on 1-3 shared keys; per key either explicit timestamps from a dense range 1..6 (ties and inversions are common) or automatic ones; memory-only and persistent (48-block device, optional thread calling flush() in a loop, cache on/off, both I/O paths); schedules: free, generated jitter tables, or up to three generated bounded parks at the named scheduling points (optimistic-read / guarded-swap / enqueue / batch / retirement windows); each program is repeated with varied schedule seeds; three programs in five are additionally run in round mode: the thread programs are repeated 20-200 times on fresh keys inside one store, all threads released together by a spin barrier with a generated per-round skew of 0-300 spins (one history per round and key), which multiplies the number of tight races per execution. Every call is stamped (invocation, response) from one atomic counter, a final get per key is appended, and a WGL search with memoisation looks for a linearization of each key's history against the last-writer-wins specification with exactly the two permitted relaxations (conservative OlderTimestamp; compare-and-swap no-swap; plus StaleExtent in persistent mode) each requiring a genuinely overlapping or earlier-invoked accepted modification. Non-trivial: a history in which two calls of different threads on one key overlapped in real time and at least one was an accepted modification; distinct by history hash. Evaluations = program executions.",
            assumptions: vec![
                "schedules are sampled and steered, not enumerated; a recorded history is judged deterministically, re-execution is not bit-reproducible".into(),
                "per key the program uses either only explicit or only automatic timestamps (mixed use is judged sequentially under C12)".into(),
            ],
        },
        "C08" => Meta {
            cases: tier.pick(2400, 30_000),
            rule: "proptest-generated racing programs on a persistent store with a 24-64 block device (freed blocks are reused at once), cache on/off, both I/O paths: one writer thread per key (1-4 keys; stamped values of 14 B .. 3 blocks that identify key and generation every 32 bytes, or 8-byte counters) issuing put / delete / re-create with another length / update_ttl / persist / increment / compare-and-swap on its own key (in three programs of ten key 0 runs on a virtual clock that only its writer moves: generations with a one-second TTL, clock jumps of two seconds that expire them under the readers, optionally followed by a delete of the expired key, so extents are retired because of expiry while readers are parked on them), 1-3 reader threads looping over get / get_bytes / range_query / compare-and-swap probes on all keys, and a thread calling flush() in a loop; schedules: free, jitter, or bounded parks at the named points (after the extent is located, after the device read, before retirement, before release, before publish ...). The writer publishes started/completed state numbers around each call; a reader samples lo=completed before and hi=started after its call. A returned value must be one complete generation of that key whose state number lies in [lo, hi]; not-found only if an absent state lies in the window (or, for a scan, the key was being rewritten); StaleExtent only if hi > lo; any other error, a foreign key's bytes, marker bytes, padding or a mixture fails; increments and swaps by the sole modifier must return exactly the model's result; no device write may hit the blocks of an extent while a reader is parked between locating and reading it. Non-trivial: an execution with at least one read from the device and at least one read that overlapped a modification of its key. Evaluations = program executions.",
            assumptions: vec!["schedules are sampled and steered, not enumerated".into(), "the no-overwrite check covers readers parked at the after_sector_load point (the controller knows sector and length there)".into()],
        },
        "C16D" => Meta {
            cases: tier.pick(2400, 24_000),
            rule: "the racing-reader programs of C08 (one writer per key issuing put / delete / re-create / update_ttl / persist / increment / compare-and-swap, 1-3 readers looping over get / get_bytes / range_query, a flushing thread, 24-64 block device, steered schedules) with the read cache always ON: every read must return a complete generation inside the [completed-before, started-after] window, sole-modifier increments and swaps must be exact, and after all threads finished every key must read back as its writer's last state - a stale cache entry masking an update, delete or TTL change under any explored interleaving fails. Non-trivial: an execution with a device read and a read overlapping a modification.",
            assumptions: vec!["schedules are sampled and steered, not enumerated".into()],
        },
        "C14D" => Meta {
            cases: tier.pick(900, 16_000),
            rule: "proptest-generated concurrent scan programs, memory-only and persistent: 6-330 stable keys (inserted before the threads start, never touched; > 256 exercises the scan's re-pin path) interleaved lexicographically with churn keys; 2-3 writers insert / insert_bytes / insert_if_absent / delete / flush the churn keys (even churn keys have one owning writer, odd ones are shared by all writers so creation races deletion of the same key); 1-2 scanners issue range queries with generated windows and limits. Each result must be strictly ascending, inside the bounds, at most limit long, every value a genuine stamped value of its key, every stable key inside the returned window present exactly once, and an owned churn key whose delete completed before the scan began (and that was not re-created until it ended) must not appear. After all threads finished the full range query, get() of every key, len() and both index key lists must agree. Non-trivial: an execution with a scan that overlapped writer calls.",
            assumptions: vec!["schedules are sampled and steered, not enumerated".into()],
        },
        "C13D" => Meta {
            cases: tier.pick(1600, 24_000),
            rule: "proptest-generated programs on a memory-only store with a limit of 8-200 KB (one program in six: no limit at all, built with no_memory_limit()): 2-8 threads insert / insert_bytes / grow by compare-and-swap / delete their own keys and up to 5 shared keys with values of 10 B - 40 KB (so only some writes fit), plus counters; two monitor threads sample memory_usage() continuously; steered schedules. Every sample must be <= the limit; a write refused with OutOfMemory must leave the owner's key unchanged; owned deletes must agree with the owner's knowledge; after all writers finished memory_usage() must equal the sum over the stored records and len() their number. Non-trivial: a run with at least one refused write and at least one write admitted within 2 KB of the limit.",
            assumptions: vec!["the limit is checked on sampled instants (two spinning monitor threads), not on every instant".into()],
        },
        "C07M" => Meta {
            cases: tier.pick(640, 8000),
            rule: "proptest-generated mixed-clock programs (memory-only and persistent): 60-400 rounds on fresh keys; in every round the main thread publishes insert_with_timestamp(key, Some(F)) with F 1 s / 1 h / 10 days ahead of the wall clock while 1-3 helper threads, released by the same barrier with a generated skew, draw automatic timestamps - on the round's own key and on pools of 1-300 other keys that collide into the same one of the 64 clock shards. After every round all helpers are parked; the main thread then issues an automatic insert / delete / compare-and-swap on the key. In real-time order that call is the newest write: it must be accepted, and the stored timestamp must exceed F. Non-trivial: a program in which explicit future timestamps were accepted while helpers wrote.",
            assumptions: vec!["the race between the explicit publication and the helpers' timestamp draws is sampled (barrier + generated spin skew), not enumerated".into()],
        },
        "C08S" => Meta {
            cases: tier.pick(640, 8000),
            rule: "proptest-generated steered scenarios on a persistent store with a 24-block device, TTL on: key K (80 B - 3 blocks; no TTL, long TTL or a one-second TTL) is flushed and offloaded; a reader thread (get, get_bytes, range_query or a non-matching compare_and_swap) is parked 30-90 ms between locating K's extent and reading it while the main thread makes the generation go away: overwrite, delete, update_ttl followed by an overwrite, or - on a process-wide virtual clock that jumps past the expiry - a delete of the expired key, lazy removal through another read, a sweeper pass, or re-creation through insert_if_absent; then flush() runs next to 1-4 inserts of other keys of the same size that want the freed blocks. No device write may hit the pinned blocks before the reader leaves (I/O hook), the reader returns the old generation, the new one, not-found or StaleExtent, K then reads as its final state and the other keys are intact. Non-trivial: the removal completed while the reader was still parked.",
            assumptions: vec!["the window is forced by parking the reader at the after_sector_load scheduling point; the retirement itself runs freely".into()],
        },
        "C16S" => Meta {
            cases: tier.pick(480, 6000),
            rule: "proptest-generated steered scenarios on a persistent store with the cache on: key K (64 B - 2 blocks) is flushed, offloaded and not cached; a reader thread is parked inside its device read of K (scheduling hook after_sector_load, 5-60 ms) while the main thread overwrites K; the reader then returns the old value and leaves a cache entry that belongs to the retired generation. Then (generated) the new generation is flushed or not, K is read once or not, and a follow-up call that may consume cached bytes runs: update_ttl / persist (TTL on), get, compare-and-swap, or none. The following get(), and a get() after flush and restart, must return the current generation. Non-trivial: the reader did return the overwritten generation, the new generation was flushed and K was not read before the follow-up call.",
            assumptions: vec!["the reader/overwrite race is forced by parking the reader at the device-read scheduling point; everything else is sequential".into()],
        },
        "C11D" => Meta {
            cases: tier.pick(900, 14_000),
            rule: "proptest-generated programs with a process-wide virtual clock: every key gets a 1 s TTL at time T, the clock jumps to T+2 s, the TTL sweeper starts (sample size 1-100, 1 ms interval) and 1-3 writers race it on their own keys: update_ttl / persist (must fail on the expired generation, must succeed after a replacement), replacement without TTL or with a long TTL, short already-expired TTLs again; a reader loops over all keys. A key whose latest generation is unexpired or has no expiry must never be missing (to the reader, to its writer's TTL calls, at the end); a value whose only generation expired >= 1 s ago must never be returned; TTL-only calls never revive an expired generation; returned bytes are the current generation. Memory-only and persistent. Non-trivial: a run in which the sweeper removed keys and writers issued TTL-only renewals.",
            assumptions: vec!["virtual time is frozen during the race (the expiry decisions are exact); schedules are sampled and steered".into()],
        },
        "C18" => Meta {
            cases: tier.pick(480, 6000),
            rule: "proptest-generated contention programs on persistent stores with 1-8 workers: 1-3 writers (insert / insert_bytes / TTL insert / delete / increment / compare-and-swap, 0-3 block values on 2-12 keys), 0-2 readers (get, range_query), 1-3 threads calling flush() in a loop, optionally the TTL sweeper at a 2 ms interval; devices of 20-60 blocks (they fill up: flush must answer OutOfSpace and succeed again after deletes) or 500 blocks; optionally every device write/fsync fails from the k-th call on (healing after 0/30/200 ms or never); schedules free / jitter / bounded parks inside reads, batches and retirement; close either after joining, or by dropping the main handle while the threads still run, or with the sweeper possibly holding the last reference. Every call, join, flush and drop runs under a 20 s watchdog; a program that trips it is re-executed alone up to three times with a 60 s limit and only a second overrun is a violation (thread states are reported). One program in four has 2-3 flush() callers and 2-3 writers on a roomy device whose record writes fail 3-9 times in a row again and again (markers, journal and metadata keep working). Non-trivial: at least three threads were inside the store at once, or a flush met a full device, or an injected fault was consumed.",
            assumptions: vec!["termination is observed for the explored schedules only (a watchdog is a bound, not a proof of liveness); every run of every other engine is under the same watchdog".into()],
        },
        _ => unreachable!(),
    }
}

pub fn run(id: &'static str, tier: Tier, seed: u64, replay: Option<&str>) -> i32 {
    if let Some(path) = replay {
        let doc: Value = serde_json::from_str(&std::fs::read_to_string(path).expect("read")).expect("json");
        let mut code = 0;
        if id == "C07" {
            if let Some(msg) = c07_rejudge(&doc) {
                println!("replay: {msg}");
                code = 1;
            } else if let Ok(p) = serde_json::from_value::<conc::LinProgram>(doc["replay"]["program"].clone()) {
                // try to reproduce by re-execution
                for _ in 0..200 {
                    let r = c07_case(&p, 1);
                    if let Some((sig, msg, _)) = r.failure {
                        println!("replay: reproduced [{sig}] {msg}");
                        code = 1;
                        break;
                    }
                }
                env::wait_reaper();
            }
        }
        if id == "C08" {
            return replay_sub("C08", path);
        }
        if code == 1 {
            println!("VIOLATION property={id} replay={path}");
        } else {
            println!("replay: the saved case passes on this tree");
        }
        return code;
    }
    let (code, ev) = run_campaign(id, id, tier, seed);
    ev.write();
    code
}

/// Run the worker campaign `id`, reporting violations under `property`.
pub fn run_campaign(id: &'static str, property: &'static str, tier: Tier, seed: u64) -> (i32, Evidence) {
    let started = std::time::Instant::now();
    let m = meta(id, tier);
    let lanes = env::threads();
    let scale: u32 = std::env::var("FXV_CASE_SCALE").ok().and_then(|s| s.parse().ok()).unwrap_or(100);
    let per = (m.cases * scale / 100).max(lanes as u32).div_ceil(lanes as u32);
    let asan_dir = std::env::var("FXV_ASAN_DIR").ok();
    let outdir = env::scratch_dir().join(format!("conc-{id}"));
    let _ = std::fs::create_dir_all(&outdir);
    let exe = std::env::current_exe().expect("exe");
    let mut children = Vec::new();
    for lane in 0..lanes {
        let mut cmd = Command::new(&exe);
        cmd.args([id, "--worker", &seed.to_string(), &lane.to_string(), &per.to_string(), outdir.to_str().unwrap(), tier.name()]).stdout(Stdio::piped()).stderr(Stdio::null());
        if let Some(d) = &asan_dir {
            cmd.env("ASAN_OPTIONS", format!("detect_leaks=0:abort_on_error=1:log_path={d}/asan-{id}-lane{lane}"));
        }
        let child = cmd.spawn().expect("spawn worker");
        children.push((lane, child));
    }
    let mut ev = Evidence::new(property, tier, seed, "exploration", m.rule);
    ev.started = started;
    ev.assumptions = m.assumptions;
    let mut counters: BTreeMap<String, u64> = BTreeMap::new();
    let mut code = 0;
    for (lane, child) in children {
        let out = child.wait_with_output().expect("wait worker");
        let text = String::from_utf8_lossy(&out.stdout).to_string();
        if let Some(l) = text.lines().find(|l| l.starts_with("WORKER-OK ")) {
            let v: Value = serde_json::from_str(&l["WORKER-OK ".len()..]).unwrap_or_default();
            ev.evaluations += v["evaluations"].as_u64().unwrap_or(0);
            if let Some(a) = v["nontrivial"].as_array() {
                for x in a {
                    ev.nontrivial.insert(x.as_u64().unwrap_or(0));
                }
            }
            if let Some(c) = v["counters"].as_object() {
                for (k, n) in c {
                    *counters.entry(k.clone()).or_insert(0) += n.as_u64().unwrap_or(0);
                }
            }
            if let Some(s) = v["samples"].as_array() {
                for x in s {
                    ev.sample(x.clone());
                }
            }
        } else if let Some(l) = text.lines().find(|l| l.starts_with("WORKER-FAIL ")) {
            let f = l["WORKER-FAIL ".len()..].trim();
            let mut doc: Value = serde_json::from_str(&std::fs::read_to_string(f).unwrap_or_default()).unwrap_or_default();
            let sig = doc["signature"].as_str().unwrap_or("unknown").to_string();
            doc["property"] = json!(property);
            doc["engine"] = json!(format!("conc:{id}"));
            if !env::report_violation(property, &sig, &doc) {
                code = 1;
                ev.violations += 1;
                eprintln!("fxv: {property} ({id}): [{sig}] {}", doc["message"].as_str().unwrap_or(""));
            }
            ev.set("failure", json!({"signature": sig, "message": doc["message"]}));
        } else if id == "C18" && (out.status.code() == Some(2) || out.status.code().is_none()) && outdir.join(format!("lane{lane}.current.json")).exists() {
            // the worker tripped the watchdog (or died): re-run the journaled program alone, 60 s limit
            let journal = outdir.join(format!("lane{lane}.current.json"));
            let first = text.lines().find(|l| l.contains("INCONCLUSIVE")).unwrap_or("worker died").to_string();
            // a deadlock that needs a race may not strike again at once: up to three runs alone
            let (mut second_hang, mut second_text) = (false, String::new());
            for _ in 0..3 {
                let again = Command::new(&exe).args(["C18", "--single", journal.to_str().unwrap(), "60000"]).stdout(Stdio::piped()).stderr(Stdio::null()).output();
                if let Ok(o) = &again {
                    if !String::from_utf8_lossy(&o.stdout).contains("SINGLE-OK") {
                        second_hang = true;
                        second_text = String::from_utf8_lossy(&o.stdout).lines().find(|l| l.contains("INCONCLUSIVE")).unwrap_or("").to_string();
                        break;
                    }
                }
            }
            if second_hang {
                let mut doc: Value = serde_json::from_str(&std::fs::read_to_string(&journal).unwrap_or_default()).unwrap_or_default();
                doc["property"] = json!(property);
                doc["engine"] = json!("conc:C18");
                doc["signature"] = json!("hang");
                doc["message"] = json!(format!("a contention program did not finish twice (20 s with others, 60 s alone): first: {first}; alone: {second_text}"));
                if !env::report_violation(property, "hang", &doc) {
                    code = 1;
                    ev.violations += 1;
                    eprintln!("fxv: {property}: {}", doc["message"].as_str().unwrap_or(""));
                }
                ev.set("failure", json!({"signature": "hang", "message": doc["message"]}));
            } else {
                *counters.entry("watchdog_overrun_not_reproduced".into()).or_insert(0) += 1;
            }
        } else {
            let status = out.status;
            if status.code() == Some(2) && text.contains("INCONCLUSIVE watchdog") {
                eprintln!("fxv: {id}: worker {lane} hit the watchdog: {}", text.lines().find(|l| l.contains("INCONCLUSIVE")).unwrap_or(""));
            } else {
                eprintln!("fxv: {id}: worker {lane} ended with {status:?}: {}", text.lines().last().unwrap_or(""));
            }
            if code == 0 {
                code = 2;
            }
        }
    }
    if let Some(d) = &asan_dir {
        if let Ok(rd) = std::fs::read_dir(d) {
            for e in rd.flatten() {
                let name = e.file_name().to_string_lossy().into_owned();
                if name.starts_with(&format!("asan-{id}-")) {
                    let report = std::fs::read_to_string(e.path()).unwrap_or_default();
                    let head: String = report.lines().take(80).collect::<Vec<_>>().join("\n");
                    let kind = report.lines().find(|l| l.contains("ERROR: AddressSanitizer")).unwrap_or("AddressSanitizer report").to_string();
                    let doc = json!({"property": property, "engine": format!("conc:{id}"), "signature": "asan-report", "message": kind, "campaign": id, "seed": seed, "report": head});
                    if !env::report_violation(property, "asan-report", &doc) {
                        code = 1;
                        ev.violations += 1;
                        eprintln!("fxv: {property} ({id}): {kind}");
                    }
                    ev.set("failure", json!({"signature": "asan-report", "message": kind}));
                    let _ = std::fs::remove_file(e.path());
                }
            }
        }
    }
    if ev.samples.is_empty() {
        ev.samples.push(json!("no non-trivial case in this run"));
    }
    ev.evaluations = ev.evaluations.max(1);
    ev.set("class_counts", json!(counters));
    ev.set("workers", json!(lanes));
    (code, ev)
}

/// Summary of a sub-campaign for folding into another property's evidence.
pub fn sub_summary(ev: &Evidence) -> Value {
    json!({
        "executions": ev.evaluations,
        "distinct_nontrivial": ev.nontrivial.len(),
        "rule": ev.rule,
        "samples": ev.samples.iter().take(2).cloned().collect::<Vec<_>>(),
        "class_counts": ev.extra.get("class_counts").cloned().unwrap_or(Value::Null),
        "failure": ev.extra.get("failure").cloned().unwrap_or(Value::Null),
    })
}

/// Replay of a concurrent sub-campaign failure: re-execute the saved program.
pub fn replay_sub(id: &str, path: &str) -> i32 {
    let doc: Value = serde_json::from_str(&std::fs::read_to_string(path).expect("read")).expect("json");
    let property = doc["property"].as_str().unwrap_or("?").to_string();
    let mut code = 0;
    for _ in 0..60 {
        let failed = match id {
            "C14D" => serde_json::from_value::<conc::ScanProgram>(doc["replay"]["program"].clone()).ok().and_then(|p| c14d_case(&p, 1).failure),
            "C13D" => serde_json::from_value::<conc::MemProgram>(doc["replay"]["program"].clone()).ok().and_then(|p| c13d_case(&p).failure),
            "C11D" => serde_json::from_value::<conc::SweepProgram>(doc["replay"]["program"].clone()).ok().and_then(|p| c11d_case(&p).failure),
            "C08S" => serde_json::from_value::<conc::PinnedProgram>(doc["replay"]["program"].clone()).ok().and_then(|p| c08s_case(&p).failure),
            "C16S" => serde_json::from_value::<conc::StaleEntryProgram>(doc["replay"]["program"].clone()).ok().and_then(|p| c16s_case(&p).failure),
            "C07M" => serde_json::from_value::<conc::ClockProgram>(doc["replay"]["program"].clone()).ok().and_then(|p| c07m_case(&p).failure),
            "C08" | "C16D" => serde_json::from_value::<conc::RaceProgram>(doc["replay"]["program"].clone()).ok().and_then(|p| c08_case(&p, 1).failure),
            _ => None,
        };
        if let Some((sig, msg, _)) = failed {
            println!("replay: reproduced [{sig}] {msg}");
            code = 1;
            break;
        }
    }
    env::wait_reaper();
    if code == 1 {
        println!("VIOLATION property={property} replay={path}");
    } else {
        println!("replay: the saved program passes on this tree (60 executions)");
    }
    code
}

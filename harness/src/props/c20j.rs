//! C20, default-allocator stage: DiskIO in direct-I/O mode (which the store never selects inside
//! a container) driven by generated write / read sequences in a child process built from
//! /verif/harness-dio with feoxdb's DEFAULT features, i.e. with jemalloc as the global allocator.
//! An aligned buffer released through the wrong allocator is legal for glibc (the AddressSanitizer
//! build uses the system allocator and sees nothing) and fatal for jemalloc. Oracle: every read
//! returns the model's bytes, the aligned-buffer accounting returns to its baseline, and the
//! child is not killed by a signal.

use std::collections::HashSet;
use std::os::unix::process::ExitStatusExt;
use std::process::{Command, Stdio};
use std::sync::atomic::{AtomicU64, Ordering};
use std::sync::{Arc, Mutex};

use proptest::prelude::*;
use serde::{Deserialize, Serialize};
use serde_json::json;

use crate::campaign::run_lanes;
use crate::env::{self, Tier};

#[derive(Clone, Debug, Serialize, Deserialize)]
pub enum DOp {
    W { at: u16, blocks: u16, seed: u8 },
    R { at: u16, blocks: u16, mode: u8 },
}

#[derive(Clone, Debug, Serialize, Deserialize)]
pub struct DioCase {
    pub device_blocks: u16,
    pub ops: Vec<DOp>,
}

fn strategy() -> BoxedStrategy<DioCase> {
    // 1 block .. beyond one retirement write (256 blocks); 15/16/17 and 63/64/65 around the
    // sizes where a copy might be traded for a hand-over
    let blocks = || prop_oneof![4 => 1u16..8, 2 => Just(15u16), 2 => Just(16u16), 2 => Just(17u16), 2 => 18u16..64, 1 => Just(64u16), 2 => 65u16..300];
    let op = prop_oneof![
        3 => (any::<u16>(), blocks(), any::<u8>()).prop_map(|(at, blocks, seed)| DOp::W { at, blocks, seed }),
        5 => (any::<u16>(), blocks(), 0u8..4).prop_map(|(at, blocks, mode)| DOp::R { at, blocks, mode }),
    ];
    (400u16..1200, proptest::collection::vec(op, 2..40)).prop_map(|(device_blocks, ops)| DioCase { device_blocks, ops }).boxed()
}

fn child() -> std::path::PathBuf {
    std::path::PathBuf::from("/verif/target-dio/release/fxdio")
}

fn judge(case: &DioCase, large_reads: &mut u64) -> Result<(), String> {
    let path = env::fresh_path("dio");
    let mut text = format!("D {}\n", case.device_blocks);
    for op in &case.ops {
        match op {
            DOp::W { at, blocks, seed } => text.push_str(&format!("W {at} {blocks} {seed}\n")),
            DOp::R { at, blocks, mode } => {
                if *blocks >= 16 {
                    *large_reads += 1;
                }
                text.push_str(&format!("R {at} {blocks} {mode}\n"));
            }
        }
    }
    std::fs::write(&path, text).map_err(|e| format!("harness: cannot write the ops file: {e}"))?;
    let out = Command::new(child()).arg(&path).stdout(Stdio::piped()).stderr(Stdio::piped()).output();
    let _ = std::fs::remove_file(&path);
    let _ = std::fs::remove_file(format!("{path}.dev"));
    let out = out.map_err(|e| format!("harness: cannot start {}: {e}", child().display()))?;
    if let Some(sig) = out.status.signal() {
        return Err(format!("[killed-by-signal] the direct-I/O call sequence ended with signal {sig} in a process using feoxdb's default global allocator (stderr: {})", String::from_utf8_lossy(&out.stderr).lines().last().unwrap_or("")));
    }
    match out.status.code() {
        Some(0) => Ok(()),
        Some(3) => Err(format!("[direct-io-oracle] {}", String::from_utf8_lossy(&out.stdout).trim())),
        other => Err(format!("[abnormal-exit] the child ended with status {other:?}: {}", String::from_utf8_lossy(&out.stderr).lines().last().unwrap_or(""))),
    }
}

pub fn campaign(tier: Tier, seed: u64) -> (i32, serde_json::Value) {
    if !child().exists() {
        eprintln!("fxv: C20 (default allocator): {} is missing (built by ./check C20 and by the setup command)", child().display());
        return (2, json!({"ran": false}));
    }
    let cases = Arc::new(AtomicU64::new(0));
    let large = Arc::new(AtomicU64::new(0));
    let nt = Arc::new(Mutex::new(HashSet::<u64>::new()));
    let (c2, l2, n2) = (cases.clone(), large.clone(), nt.clone());
    let check = move |case: &DioCase, counting: bool| -> Result<(), String> {
        let mut lr = 0;
        let r = judge(case, &mut lr);
        if counting {
            c2.fetch_add(1, Ordering::Relaxed);
            l2.fetch_add(lr, Ordering::Relaxed);
            if lr > 0 {
                n2.lock().unwrap().insert(env::fnv(format!("{case:?}").as_bytes()));
            }
        }
        r
    };
    let found = run_lanes(strategy(), tier.pick(3000, 40_000), 40, seed ^ 0xC20D, env::threads(), check);
    let mut code = 0;
    let mut failure = serde_json::Value::Null;
    if let Some((case, msg)) = found {
        let sig = msg.strip_prefix('[').and_then(|m| m.split(']').next()).unwrap_or("direct-io").to_string();
        if msg.starts_with("harness") {
            eprintln!("fxv: C20 (default allocator): harness problem: {msg}");
            code = 2;
        } else {
            let replay = json!({"property": "C20", "engine": "direct_io_default_allocator", "signature": sig, "message": msg, "case": serde_json::to_value(&case).unwrap()});
            if !env::report_violation("C20", &sig, &replay) {
                code = 1;
                eprintln!("fxv: C20 (default allocator): {msg}");
            }
        }
        failure = json!({"signature": sig, "message": msg});
    }
    let summary = json!({
        "executions": cases.load(Ordering::Relaxed),
        "reads_of_16_blocks_or_more": large.load(Ordering::Relaxed),
        "distinct_nontrivial": nt.lock().unwrap().len(),
        "rule": "proptest-generated sequences of 2-40 DiskIO::write_sectors_sync / read_sectors_sync calls (1-300 blocks, sizes around 16 and 64 blocks) on a DiskIO opened in direct-I/O mode, each sequence executed in a child process built with feoxdb's default features (jemalloc is the global allocator there; the AddressSanitizer build uses the system allocator); returned buffers are dropped at once, kept as Vec, or turned into Bytes and dropped (original or clone) on another thread. Oracle: every read returns the bytes of a model image, FeoxAllocator::get_allocated() returns to its baseline, the child is not killed by a signal. Non-trivial: a sequence with a read of 16 blocks or more. Shrinking re-executes the child per candidate.",
        "failure": failure,
    });
    (code, summary)
}

pub fn replay(path: &str) -> i32 {
    let doc: serde_json::Value = serde_json::from_str(&std::fs::read_to_string(path).expect("read")).expect("json");
    let case: DioCase = serde_json::from_value(doc["case"].clone()).expect("case");
    match judge(&case, &mut 0) {
        Err(e) => {
            println!("replay: {e}");
            println!("VIOLATION property=C20 replay={path}");
            1
        }
        Ok(()) => {
            println!("replay: the saved sequence passes on this tree");
            0
        }
    }
}

//! Engine-B properties: C02 (acknowledged durability), C03 (any crash reopens to authentic
//! contents), C04 (recovery idempotent / restartable).

use std::collections::HashSet;
use std::sync::atomic::{AtomicU64, Ordering};
use std::sync::{Arc, Mutex};

use serde_json::{json, Value};

use crate::campaign::{case_summary, config_label, run_lanes};
use crate::crash::{self, Budget, CrashFailure, CrashStats};
use crate::env::{self, Evidence, Tier};
use crate::ops::{case_strategy, Bias, Case};
use proptest::strategy::{Just, Strategy};

fn bias(id: &str, tier: Tier) -> Bias {
    Bias {
        max_ops: tier.pick(30, 44),
        persistent: Some(true),
        versions: vec![1, 2, 3, 3, 3],
        cache: Some(false),
        tiny_device: 10,
        large_device: 0,
        memory_limit: 0,
        invalid: 1,
        ttl_ops: if id == "C04" { 6 } else { 3 },
        range_ops: 0,
        ts_explicit: 3,
        near_max_ts: false,
        multi_block: 8,
        hostile: 5,
        big_values: false,
        flush: 8,
        reopen: 2,
        sleep: 3,
        many_keys: false,
        long_keys: false,
        json: 1,
        counters: 2,
        ttl_toggle: false,
        ..Bias::default()
    }
}

pub fn hex_pub(b: &[u8]) -> String {
    hex(b)
}

fn hex(b: &[u8]) -> String {
    let mut s = String::with_capacity(b.len() * 2);
    for x in b {
        s.push_str(&format!("{x:02x}"));
    }
    s
}

pub fn unhex(s: &str) -> Vec<u8> {
    (0..s.len() / 2).map(|i| u8::from_str_radix(&s[2 * i..2 * i + 2], 16).unwrap_or(0)).collect()
}

fn budget(tier: Tier) -> Budget {
    Budget {
        nested_per_workload: tier.pick(150, 2500),
        extra_masks: tier.pick(2, 8),
        torn: tier.pick(1, 3),
        max_points: tier.pick(160, 400),
        c04_depth: tier.pick(2, 3),
        c04_every: 1,
        single_flips: 24,
        tail_only: false,
    }
}

fn failing_image(case: &Case, f: &CrashFailure) -> Option<(Vec<u8>, u64)> {
    // rebuild from a fresh execution of the workload is not deterministic; the image is
    // captured at failure time instead (see `LAST_IMAGE`)
    let _ = (case, f);
    None
}

pub fn run(id: &'static str, tier: Tier, seed: u64, replay: Option<&str>) -> i32 {
    if let Some(path) = replay {
        return replay_crash(id, path, tier);
    }
    let started = std::time::Instant::now();
    let totals = Arc::new(Mutex::new(CrashStats::default()));
    let workloads = Arc::new(AtomicU64::new(0));
    let unusable = Arc::new(AtomicU64::new(0));
    let configs = Arc::new(Mutex::new(std::collections::BTreeMap::<String, u64>::new()));
    let samples = Arc::new(Mutex::new(Vec::<Value>::new()));
    let last_failure: Arc<Mutex<Option<(CrashFailure, Vec<u8>)>>> = Arc::new(Mutex::new(None));
    let b = bias(id, tier);
    let cases = match id {
        "C04" => tier.pick(64, 1200),
        _ => tier.pick(208, 3000),
    };
    let (t2, w2, u2, c2, s2, lf) = (totals.clone(), workloads.clone(), unusable.clone(), configs.clone(), samples.clone(), last_failure.clone());
    let check = move |case: &Case, counting: bool| -> Result<(), String> {
        let run = crash::run_workload(case);
        if !run.usable {
            if counting {
                u2.fetch_add(1, Ordering::Relaxed);
                if std::env::var("FXV_DEBUG_FOREIGN").is_ok() {
                    eprintln!("unusable workload: {}", run.note);
                }
            }
            return Ok(());
        }
        let mut st = CrashStats::default();
        let fp = env::fnv(&serde_json::to_vec(case).unwrap());
        if case.cfg.dev.blocks() > 3000 && std::env::var("FXV_DEBUG_MASS").is_ok() {
            let mut counts = Vec::new();
            let mut markers = 0;
            for e in &run.entries {
                if let crate::trace::Entry::Write { off, data, .. } = e {
                    let b = off / 4096;
                    if (1..7).contains(&b) && data.len() >= 40 {
                        counts.push(u32::from_le_bytes(data[28..32].try_into().unwrap_or([0; 4])));
                    }
                    if b >= 16 && data.starts_with(b"\0DELETED") {
                        markers += 1;
                    }
                }
            }
            eprintln!("mass workload: {} trace entries, {} marker writes, journal header words {:?}", run.entries.len(), markers, &counts[counts.len().saturating_sub(12)..]);
        }
        // very large images (mass deletion): fewer crash points and single-write flips
        let mut bud = budget(tier);
        if case.cfg.dev.blocks() > 3000 {
            bud.max_points = tier.pick(16, 120);
            bud.tail_only = true;
            bud.single_flips = 2;
            bud.extra_masks = 1;
            bud.nested_per_workload = 0;
        }
        let f = crash::explore(&run, case, id, &bud, &mut st, fp);
        if counting {
            w2.fetch_add(1, Ordering::Relaxed);
            *c2.lock().unwrap().entry(config_label(&case.cfg)).or_insert(0) += 1;
            let mut t = t2.lock().unwrap();
            t.merge(&st);
            if case.cfg.dev.blocks() > 3000 {
                *t.counters.entry("wl.mass_retirement_workload".to_string()).or_insert(0) += 1;
                *t.counters.entry("wl.mass_retirement_images".to_string()).or_insert(0) += st.images;
            }
            if case.keys.first().is_some_and(|k| k.starts_with(b"end-")) {
                *t.counters.entry("wl.device_end_workload".to_string()).or_insert(0) += 1;
                *t.counters.entry("wl.device_end_images".to_string()).or_insert(0) += st.images;
            }
            for (k, v) in &run.stats.events {
                *t.counters.entry(format!("wl.{k}")).or_insert(0) += v;
            }
            let mut s = s2.lock().unwrap();
            if s.len() < 3 && st.images > 0 {
                s.push(json!({"workload": case_summary(case), "trace_entries": run.entries.len(), "images_judged": st.images}));
            }
        }
        match f {
            None => Ok(()),
            Some(f) => {
                // capture the failing image for the replay file
                let (durable, volatile) = crate::trace::split_at(&run.entries, f.spec.p);
                let img = crate::trace::build_image(&run.base, &run.entries, &durable, &volatile, &f.spec.subset, f.spec.torn);
                let msg = format!("[{}] {}", f.signature, f.msg);
                *lf.lock().unwrap() = Some((f, img));
                Err(msg)
            }
        }
    };
    // one workload in five writes batches of 60-120 records through a single shard/worker, so a
    // batch's journal intent spans several 512-byte sectors and can be torn
    let wide = crate::ops::wide_batch_strategy(vec![1, 2, 3, 3]);
    // one workload in ten works on 2-3 keys with values of 200-600 blocks on a 2400-block device:
    // extents beyond one retirement write (256 blocks), multi-write marker chains, long replays
    let big = crate::ops::wide_extent_strategy(vec![1, 2, 3, 3]);
    // one workload in twelve fills a small device to its very last block: transactions whose
    // extent ends exactly at the end of the device, torn multi-block writes there
    let end = crate::ops::device_end_strategy(vec![1, 2, 3, 3]);
    let strategy = if id == "C04" { proptest::strategy::Union::new_weighted(vec![(6, case_strategy(&b)), (1, big), (1, end)]).boxed() } else { proptest::strategy::Union::new_weighted(vec![(70, case_strategy(&b)), (20, wide), (10, big), (3, crate::ops::mass_delete_strategy()), (9, end)]).boxed() };
    let strategy = if std::env::var("FXV_ONLY_END").is_ok() { crate::ops::device_end_strategy(vec![1, 2, 3, 3]) } else { strategy };
    let mut found = run_lanes(strategy, cases, tier.pick(40, 80), seed, env::threads(), check);
    env::wait_reaper();
    // C04 only: images synthesised with the codec to force every repair kind (duplicates in both
    // scan orders, expired newest generations next to older ones, pending markers, active journals)
    let mut synth_fail: Option<(crate::props::c15::MigCase, String)> = None;
    if id == "C04" && found.is_none() {
        let t3 = totals.clone();
        let lf2 = last_failure.clone();
        let synth_check = move |(version, items, journal_items, ttl): &(u32, Vec<crate::props::c15::Item>, Vec<u8>, bool), counting: bool| -> Result<(), String> {
            let img = crate::props::c15::build_synth(*version, items, journal_items, false);
            let cfg = crate::ops::Config { persistent: true, version: *version, cache: false, ttl: *ttl, dev: crate::ops::DevSize::Tiny(0), max_memory: None, plain_io: true, legacy_plain_meta: false, visible_cpus: 2 };
            let mut st = CrashStats::default();
            let spec = crash::ImageSpec { p: 0, subset: vec![], torn: None };
            let mut rng = env::fnv(&img[16 * 4096..]) | 1;
            let res = match crash::open_image(&img, &cfg, crate::props::c15::NOW, true, true) {
                Err(_) => None, // recovery may legitimately refuse a synthesised image (e.g. ambiguous legacy tombstone)
                Ok(o) => {
                    st.images += 1;
                    if o.recovery_entries.iter().any(|e| matches!(e, crate::trace::Entry::Write { .. })) {
                        st.nontrivial_c04.insert(env::fnv(&img));
                        st.hit("c04.synth_recovery_wrote");
                    }
                    let mut left = 120usize;
                    crash::check_recovery(&cfg, &img, &o, crate::props::c15::NOW, 2, &mut st, &spec, &mut rng, &budget(tier), &mut left)
                }
            };
            if counting {
                t3.lock().unwrap().merge(&st);
            }
            match res {
                None => Ok(()),
                Some(f) => {
                    let msg = format!("[{}] synthesised image: {}", f.signature, f.msg);
                    *lf2.lock().unwrap() = Some((f, img));
                    Err(msg)
                }
            }
        };
        let strat = (
            proptest::prelude::prop_oneof![Just(2u32), Just(3u32), Just(3u32), Just(1u32)],
            proptest::collection::vec(crate::props::c15::item(), 1..24),
            proptest::collection::vec(proptest::prelude::any::<u8>(), 0..3),
            proptest::bool::weighted(0.8),
        )
            .boxed();
        if let Some((v, msg)) = run_lanes(strat, tier.pick(320, 6000), 200, seed ^ 0x51, env::threads(), synth_check) {
            synth_fail = Some((crate::props::c15::MigCase { source: crate::props::c15::Source::Synth { version: v.0, data_blocks: 0, items: v.1, journal_items: v.2, plain_meta: false }, allow_ambiguous: v.3, dest: crate::props::c15::DestKind::Absent, touch_source: false, plant_dest: false }, msg));
        }
        env::wait_reaper();
    }
    let synth_failed = synth_fail.is_some();
    if let Some((mc, msg)) = synth_fail {
        // report through the common path with an empty workload case
        let dummy = Case { cfg: crate::ops::Config { persistent: true, version: 3, cache: false, ttl: true, dev: crate::ops::DevSize::Tiny(24), max_memory: None, plain_io: true, legacy_plain_meta: false, visible_cpus: 2 }, keys: vec![], t0_offset: 0, ops: vec![] };
        eprintln!("fxv: C04 synthesised source: {}", serde_json::to_string(&mc).unwrap_or_default());
        found = Some((dummy, msg));
    }
    let _ = synth_failed;

    let t = totals.lock().unwrap().clone();
    let nt = match id {
        "C02" => &t.nontrivial_c02,
        "C03" => &t.nontrivial_c03,
        _ => &t.nontrivial_c04,
    };
    let rule = match id {
        "C02" => "proptest-generated persistent workloads (flush, clean reopen, sleeps for the periodic flusher, tiny devices, v1/v2/v3, both I/O paths) executed with the device-I/O trace hook; for every trace point after an acknowledgement (flush Ok / clean close) crash images = durable prefix + {none, all, each single missing, each single present, random masks} of the un-synced writes + 512-byte tearing of one of them; each image is reopened by the real code and every key must show a generation no older than the acknowledged one (value, timestamp, expiry together). Non-trivial: image with a dropped or torn un-synced write, taken after an acknowledgement that covered an overwrite or delete. Evaluations = images judged.",
        "C03" => "same workloads and crash-state model over the whole trace (before, between and after acknowledgements, inside open); values include byte-exact images of records, retirement markers and legacy tombstones on block boundaries with tokens for the predicted sectors; each image must open, expose only keys the application wrote, each with one complete generation from its own history inside the window [last acked, last begun], and len() == range count == indexed records. Non-trivial: image with at least one dropped or torn un-synced write. Evaluations = images judged.",
        _ => "crash images as for C03; recovery #1 runs with the I/O trace on; (a) the post-recovery file opened again yields the same contents, (b) recovery's own writes are cut at every point (subset/tearing model) and the nested image must recover to exactly the contents of the first successful recovery (nested to the stated depth), (c) no repair write overlaps the extent of a record reported live. Non-trivial: first recovery issued at least one device write. Evaluations = images opened (outer + nested).",
    };
    let mut ev = Evidence::new(id, tier, seed, "fault_enumeration", rule);
    ev.started = started;
    ev.evaluations = t.images;
    ev.nontrivial = nt.clone();
    ev.samples = samples.lock().unwrap().clone();
    if ev.samples.is_empty() {
        ev.samples.push(json!("no workload produced images in this run"));
    }
    ev.set("workloads", json!(workloads.load(Ordering::Relaxed)));
    ev.set("workloads_unusable", json!(unusable.load(Ordering::Relaxed)));
    ev.set("class_counts", json!(t.counters));
    ev.set("configurations", json!(*configs.lock().unwrap()));
    ev.assumptions = vec![
        "crash-state model: writes before a completed fsync are durable; each later write is independently absent, present or torn at 512-byte sector granularity; no ordering among them".into(),
        "file length (set once at creation) is assumed durable".into(),
        "single application thread; background flush workers and the periodic flusher supply the concurrency".into(),
    ];
    let mut code = 0;
    if let Some((case, msg)) = found {
        let lf = last_failure.lock().unwrap().take();
        let (sig, message, spec, image) = match lf {
            Some((f, img)) => (f.signature.clone(), f.msg.clone(), format!("{:?} nested {:?}", f.spec, f.nested), img),
            None => ("unknown".to_string(), msg.clone(), String::new(), Vec::new()),
        };
        let _ = failing_image;
        let replay = json!({
            "property": id,
            "engine": "crash",
            "signature": sig,
            "message": message,
            "first_message": msg,
            "image_spec": spec,
            "case": serde_json::to_value(&case).unwrap(),
            "image_deflate_hex": hex(&miniz_oxide::deflate::compress_to_vec(&image, 6)),
        });
        let known = env::report_violation(id, &sig, &replay);
        if !known {
            ev.violations = 1;
            code = 1;
            eprintln!("fxv: {id}: [{sig}] {message}");
        }
        ev.set("failure", json!({"signature": sig, "message": message, "known_finding": known}));
    }
    ev.write();
    code
}

fn replay_crash(id: &'static str, path: &str, tier: Tier) -> i32 {
    let doc: Value = serde_json::from_str(&std::fs::read_to_string(path).expect("read replay")).expect("parse replay");
    let case: Case = serde_json::from_value(doc["case"].clone()).expect("case");
    // 1. the saved image itself. It was written by the tree the failure was found on: if that
    // tree's write path was at fault, the image is not a state this tree can reach, so a failure
    // to open it is reported but only counts together with a reproduction by re-execution (2.)
    let mut code = 0;
    let mut image_fails = false;
    if let Some(h) = doc["image_deflate_hex"].as_str() {
        if let Ok(img) = miniz_oxide::inflate::decompress_to_vec(&unhex(h)) {
            if !img.is_empty() {
                match crash::open_image(&img, &case.cfg, crate::ops::T0 + case.t0_offset, false, false) {
                    Ok(o) => println!("replay: saved image opens; {} keys", o.contents.map.len()),
                    Err(e) => {
                        println!("replay: saved image fails to open: {e}");
                        if doc["signature"].as_str().is_some_and(|s| s.starts_with("open-failed")) {
                            image_fails = true;
                        }
                    }
                }
            }
        }
    }
    // 2. the workload, re-executed and re-explored (up to 8 times: traces are schedule dependent)
    let mut bud = budget(tier);
    if case.cfg.dev.blocks() > 3000 {
        bud.max_points = 32;
        bud.tail_only = true;
        bud.single_flips = 2;
        bud.extra_masks = 1;
        bud.nested_per_workload = 0;
    }
    for _ in 0..8 {
        if code != 0 {
            break;
        }
        let run = crash::run_workload(&case);
        if !run.usable {
            continue;
        }
        let mut st = CrashStats::default();
        if let Some(f) = crash::explore(&run, &case, id, &bud, &mut st, 0) {
            println!("replay: [{}] {}", f.signature, f.msg);
            code = 1;
        }
    }
    if image_fails && code == 0 {
        println!("replay: the saved image still does not open, but no re-execution of the workload on this tree reaches such a state: not counted");
    }
    env::wait_reaper();
    if code == 1 {
        println!("VIOLATION property={id} replay={path}");
    } else {
        println!("replay: the saved case passes on this tree");
    }
    code
}


/// C05 (recovery clause): the data area is exactly partitioned right after recovering crash images
/// of generated workloads and codec-synthesised images.
pub fn partition_campaign(tier: Tier, seed: u64) -> (i32, Value) {
    let (code, mut summary) = recovery_campaign("C05", "after-recovery-partition", tier, seed);
    // synthesised images: duplicates in both scan orders, expired winners, markers, journals
    let images = Arc::new(AtomicU64::new(0));
    let nt = Arc::new(AtomicU64::new(0));
    let (i2, n2) = (images.clone(), nt.clone());
    let check = move |(version, items, journal_items, ttl): &(u32, Vec<crate::props::c15::Item>, Vec<u8>, bool), counting: bool| -> Result<(), String> {
        let items: Vec<crate::props::c15::Item> = items.iter().filter(|i| !matches!(i, crate::props::c15::Item::Tombstone)).cloned().collect();
        let img = crate::props::c15::build_synth(*version, &items, journal_items, false);
        let cfg = crate::ops::Config { persistent: true, version: *version, cache: false, ttl: *ttl, dev: crate::ops::DevSize::Tiny(0), max_memory: None, plain_io: true, legacy_plain_meta: false, visible_cpus: 2 };
        let r = crash::open_image(&img, &cfg, crate::props::c15::NOW, false, false);
        if counting {
            i2.fetch_add(1, Ordering::Relaxed);
            if let Ok(dec) = crate::layout::decode_image(&img) {
                if dec.all_records.len() > dec.live.len() {
                    n2.fetch_add(1, Ordering::Relaxed);
                }
            }
        }
        match r {
            Ok(o) => match o.contents.partition_problem {
                Some((sig, msg)) => Err(format!("[after-recovery-{sig}] right after recovering a synthesised v{version} image: {msg}")),
                None => Ok(()),
            },
            Err(_) => Ok(()),
        }
    };
    let strat = (
        proptest::prelude::prop_oneof![Just(1u32), Just(2u32), Just(3u32), Just(3u32)],
        proptest::collection::vec(crate::props::c15::item(), 1..24),
        proptest::collection::vec(proptest::prelude::any::<u8>(), 0..4),
        proptest::prelude::any::<bool>(),
    )
        .boxed();
    let found = run_lanes(strat, tier.pick(1200, 16_000), 300, seed ^ 0xC05, env::threads(), check);
    env::wait_reaper();
    let mut code = code;
    let mut sfail = Value::Null;
    if let Some((spec, msg)) = found {
        let replay = json!({"property": "C05", "engine": "synth_partition", "signature": "after-recovery-partition", "message": msg, "spec": serde_json::to_value(&spec).unwrap()});
        if !env::report_violation("C05", "after-recovery-partition", &replay) {
            code = 1;
            eprintln!("fxv: C05 (synthesised images): {msg}");
        }
        sfail = json!({"message": msg});
    }
    summary["synthesised_images"] = json!({"images": images.load(Ordering::Relaxed), "with_duplicate_generations": nt.load(Ordering::Relaxed), "failure": sfail});
    summary["images"] = json!(summary["images"].as_u64().unwrap_or(0) + images.load(Ordering::Relaxed));
    summary["distinct_nontrivial"] = json!(summary["distinct_nontrivial"].as_u64().unwrap_or(0) + nt.load(Ordering::Relaxed));
    (code, summary)
}

/// C13 (recovery clause): memory accounting is exact after recovering any crash image.
pub fn accounting_campaign(tier: Tier, seed: u64) -> (i32, Value) {
    recovery_campaign("C13", "memory-accounting-after-recovery", tier, seed)
}

/// C12 (restart clause): right after recovering any crash image or synthesised image, automatic
/// writes on recovered keys are accepted with timestamps above the recovered ones.
pub fn clock_campaign(tier: Tier, seed: u64) -> (i32, Value) {
    let (code, mut summary) = recovery_campaign("C12", "auto-write-after-recovery", tier, seed);
    let images = Arc::new(AtomicU64::new(0));
    let nt = Arc::new(Mutex::new(HashSet::<u64>::new()));
    let (i2, n2) = (images.clone(), nt.clone());
    let check = move |spec: &(u32, Vec<crate::props::c15::Item>, Vec<u8>, bool, bool), counting: bool| -> Result<(), String> {
        synth_clock_check(spec, counting.then_some((&i2, &n2)))
    };
    let strat = (
        proptest::prelude::prop_oneof![Just(1u32), Just(2u32), Just(3u32), Just(3u32)],
        proptest::collection::vec(crate::props::c15::item(), 1..24),
        proptest::collection::vec(proptest::prelude::any::<u8>(), 0..3),
        proptest::prelude::any::<bool>(),
        proptest::bool::weighted(0.8),
    )
        .boxed();
    let found = run_lanes(strat, tier.pick(1500, 16_000), 300, seed ^ 0xC12, env::threads(), check);
    env::wait_reaper();
    let mut code = code;
    let mut sfail = Value::Null;
    if let Some((spec, msg)) = found {
        let replay = json!({"property": "C12", "engine": "synth_clock", "signature": "auto-write-after-recovery", "message": msg, "spec": serde_json::to_value(&spec).unwrap()});
        if !env::report_violation("C12", "auto-write-after-recovery", &replay) {
            code = 1;
            eprintln!("fxv: C12 (synthesised images): {msg}");
        }
        sfail = json!({"message": msg});
    }
    let n = nt.lock().unwrap().len() as u64;
    summary["synthesised_images"] = json!({"images": images.load(Ordering::Relaxed), "duplicate_generations_ahead_of_the_clock": n, "failure": sfail});
    summary["images"] = json!(summary["images"].as_u64().unwrap_or(0) + images.load(Ordering::Relaxed));
    summary["distinct_nontrivial"] = json!(summary["distinct_nontrivial"].as_u64().unwrap_or(0) + n);
    (code, summary)
}

type SynthClockSpec = (u32, Vec<crate::props::c15::Item>, Vec<u8>, bool, bool);

fn synth_clock_check(spec: &SynthClockSpec, counters: Option<(&Arc<AtomicU64>, &Arc<Mutex<HashSet<u64>>>)>) -> Result<(), String> {
    let (version, items, journal_items, ttl, future) = spec;
    let items: Vec<crate::props::c15::Item> = items.iter().filter(|i| !matches!(i, crate::props::c15::Item::Tombstone)).cloned().collect();
    let now = crate::props::c15::NOW;
    // generation timestamps ahead of the recovery clock (accepted explicit timestamps) or far behind it
    let base = if *future { now + 1_000_000_000_000 } else { 1000 };
    let img = crate::props::c15::build_synth_ts(*version, &items, journal_items, false, base);
    let cfg = crate::ops::Config { persistent: true, version: *version, cache: false, ttl: *ttl, dev: crate::ops::DevSize::Tiny(0), max_memory: None, plain_io: true, legacy_plain_meta: false, visible_cpus: 2 };
    crash::PROBE_CLOCK.with(|c| c.set(true));
    let r = crash::open_image(&img, &cfg, now, false, false);
    crash::PROBE_CLOCK.with(|c| c.set(false));
    if let Some((images, nt)) = counters {
        images.fetch_add(1, Ordering::Relaxed);
        if *future {
            if let Ok(dec) = crate::layout::decode_image(&img) {
                if dec.all_records.len() > dec.live.len() {
                    nt.lock().unwrap().insert(env::fnv(&img[16 * 4096..]));
                }
            }
        }
    }
    match r {
        Ok(o) => match o.contents.clock_problem {
            Some(msg) => Err(format!("[auto-write-after-recovery] right after recovering a synthesised v{version} image (generation timestamps from {base}, recovery clock {now}): {msg}")),
            None => Ok(()),
        },
        Err(_) => Ok(()),
    }
}

pub fn replay_synth_clock(path: &str) -> i32 {
    let doc: Value = serde_json::from_str(&std::fs::read_to_string(path).expect("read replay")).expect("parse replay");
    let spec: SynthClockSpec = serde_json::from_value(doc["spec"].clone()).expect("spec");
    let r = synth_clock_check(&spec, None);
    env::wait_reaper();
    match r {
        Err(e) => {
            println!("replay: {e}");
            println!("VIOLATION property=C12 replay={path}");
            1
        }
        Ok(()) => {
            println!("replay: automatic writes follow the recovered timestamps of the saved image on this tree");
            0
        }
    }
}

fn recovery_campaign(which: &'static str, signature: &'static str, tier: Tier, seed: u64) -> (i32, Value) {
    let totals = Arc::new(Mutex::new(CrashStats::default()));
    let workloads = Arc::new(AtomicU64::new(0));
    let last_failure: Arc<Mutex<Option<(CrashFailure, Vec<u8>)>>> = Arc::new(Mutex::new(None));
    let mut b = bias("C03", tier);
    b.multi_block = 10;
    b.hostile = 0;
    if which == "C12" {
        b.ts_explicit = 10;
        b.near_max_ts = false;
    }
    let (t2, w2, lf) = (totals.clone(), workloads.clone(), last_failure.clone());
    let lf_now = Arc::new(AtomicU64::new(0));
    let lf_now2 = lf_now.clone();
    let check = move |case: &Case, counting: bool| -> Result<(), String> {
        let run = crash::run_workload(case);
        if !run.usable {
            return Ok(());
        }
        let mut st = CrashStats::default();
        let fp = env::fnv(&serde_json::to_vec(case).unwrap());
        let mut bud = budget(tier);
        bud.torn = 0;
        bud.extra_masks = 1;
        crash::PROBE_CLOCK.with(|c| c.set(which == "C12"));
        let f = crash::explore(&run, case, which, &bud, &mut st, fp);
        crash::PROBE_CLOCK.with(|c| c.set(false));
        if counting {
            w2.fetch_add(1, Ordering::Relaxed);
            t2.lock().unwrap().merge(&st);
        }
        match f {
            None => Ok(()),
            Some(f) => {
                let (durable, volatile) = crate::trace::split_at(&run.entries, f.spec.p);
                let img = crate::trace::build_image(&run.base, &run.entries, &durable, &volatile, &f.spec.subset, f.spec.torn);
                let msg = format!("[{}] {}", f.signature, f.msg);
                lf_now2.store(crash::point_info(&run.entries, f.spec.p, crate::ops::T0 + case.t0_offset).now, Ordering::Relaxed);
                *lf.lock().unwrap() = Some((f, img));
                Err(msg)
            }
        }
    };
    let found = run_lanes(case_strategy(&b), tier.pick(64, 900), tier.pick(40, 80), seed ^ 0xC13, env::threads(), check);
    env::wait_reaper();
    let t = totals.lock().unwrap().clone();
    let mut code = 0;
    let mut failure = Value::Null;
    if let Some((case, msg)) = found {
        let image = last_failure.lock().unwrap().take().map(|(_, i)| i).unwrap_or_default();
        let replay = json!({"property": which, "engine": "crash_accounting", "signature": signature, "message": msg, "recovery_clock": lf_now.load(Ordering::Relaxed), "case": serde_json::to_value(&case).unwrap(), "image_deflate_hex": hex(&miniz_oxide::deflate::compress_to_vec(&image, 6))});
        if !env::report_violation(which, signature, &replay) {
            code = 1;
            eprintln!("fxv: {which} (recovery of crash images): {msg}");
        }
        failure = json!({"message": msg});
    }
    let summary = json!({
        "images": t.images,
        "workloads": workloads.load(Ordering::Relaxed),
        "distinct_nontrivial": t.nontrivial_c04.len(),
        "class_counts": t.counters,
        "rule": if which == "C12" { "crash images of generated persistent workloads with explicit timestamps (relative to the key's current one and to the clock, up to 10^15 ns ahead; crash-state model of C03 without tearing) are reopened at the crash's virtual time; right after recovery an automatic insert on the recovered keys with the highest timestamps (and the first two keys) must be accepted and get a timestamp above the recovered one; images holding a timestamp within 2^20 of u64::MAX are skipped (saturation range of the known finding). Synthesised v1/v2/v3 images (duplicate generations in both scan orders, timestamps ahead of or behind the recovery clock) get the same probe. Non-trivial: a probed image whose recovered timestamps lie ahead of the recovery clock / a synthesised image with duplicate generations ahead of the clock." } else if which == "C13" { "crash images of generated persistent workloads (same crash-state model as C03, without tearing) are reopened; right after recovery memory_usage() must equal the sum over the recovered records of (size_of::<Record>() + key length + value length). Non-trivial: an image that held more than one generation of some key." } else { "crash images of generated persistent workloads (crash-state model of C03, without tearing) and codec-synthesised v1/v2/v3 images (duplicate generations in both scan orders, expired winners, complete and pending markers, gaps, active journals) are reopened; right after recovery the snapshot must partition the data area exactly: every block in exactly one live extent or in the free pool, free runs merged, usage counter equal to the live blocks. Non-trivial: an image that held more than one generation of some key." },
        "failure": failure,
    });
    (code, summary)
}

pub fn replay_accounting(path: &str) -> i32 {
    let doc: Value = serde_json::from_str(&std::fs::read_to_string(path).expect("read replay")).expect("parse replay");
    let case: Case = serde_json::from_value(doc["case"].clone()).expect("case");
    let mut code = 0;
    if let Some(h) = doc["image_deflate_hex"].as_str() {
        if let Ok(img) = miniz_oxide::inflate::decompress_to_vec(&unhex(h)) {
            crash::PROBE_CLOCK.with(|c| c.set(doc["property"].as_str() == Some("C12")));
            let now = doc["recovery_clock"].as_u64().unwrap_or(crate::ops::T0 + case.t0_offset);
            if let Ok(o) = crash::open_image(&img, &case.cfg, now, false, false) {
                if let (Some((sig, msg)), Some("C05")) = (&o.contents.partition_problem, doc["property"].as_str()) {
                    println!("replay: [{sig}] {msg}");
                    code = 1;
                }
                if doc["property"].as_str() == Some("C12") {
                    if let Some(msg) = &o.contents.clock_problem {
                        println!("replay: {msg}");
                        code = 1;
                    }
                } else if doc["property"].as_str() != Some("C05") && o.contents.memory_usage != o.contents.memory_expected {
                    println!("replay: memory_usage()={} but the recovered records sum to {}", o.contents.memory_usage, o.contents.memory_expected);
                    code = 1;
                }
            }
        }
    }
    env::wait_reaper();
    if code == 1 {
        println!("VIOLATION property={} replay={path}", doc["property"].as_str().unwrap_or("C13"));
    } else {
        println!("replay: the saved image is accounted exactly on this tree");
    }
    code
}

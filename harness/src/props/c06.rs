//! C06: the free-space manager against a bitmap reference — exhaustive small-scope BFS plus
//! proptest call sequences on larger devices.

use std::collections::{HashMap, VecDeque};
use std::sync::atomic::{AtomicU64, Ordering};
use std::sync::{Arc, Mutex};

use feoxdb::storage::free_space::FreeSpaceManager;
use proptest::prelude::*;
use serde::{Deserialize, Serialize};
use serde_json::json;

use crate::campaign::run_lanes;
use crate::env::{self, Evidence, Tier};

const START: u64 = 16;

#[derive(Clone, Copy, Debug, PartialEq, Eq, Serialize, Deserialize, Hash)]
pub enum FsCall {
    Alloc(u64),
    Release(u64, u64),
}

/// bitmap reference: free[i] refers to block START + i
#[derive(Clone, Debug)]
struct Reference {
    free: Vec<bool>,
}

impl Reference {
    fn new(data_blocks: usize) -> Self {
        Reference { free: vec![true; data_blocks] }
    }
    fn total(&self) -> u64 {
        START + self.free.len() as u64
    }
    fn runs(&self) -> Vec<(u64, u64)> {
        let mut out = Vec::new();
        let mut i = 0;
        while i < self.free.len() {
            if self.free[i] {
                let s = i;
                while i < self.free.len() && self.free[i] {
                    i += 1;
                }
                out.push((START + s as u64, (i - s) as u64));
            } else {
                i += 1;
            }
        }
        out
    }
    fn longest(&self) -> u64 {
        self.runs().iter().map(|r| r.1).max().unwrap_or(0)
    }
    fn free_count(&self) -> u64 {
        self.free.iter().filter(|b| **b).count() as u64
    }
    fn release_valid(&self, s: u64, c: u64) -> bool {
        if c == 0 || s < START {
            return false;
        }
        let Some(e) = s.checked_add(c) else { return false };
        if e > self.total() {
            return false;
        }
        (s..e).all(|b| !self.free[(b - START) as usize])
    }
}

#[derive(Default, Clone)]
struct Notes {
    merged_both: bool,
    partial_overlap_rejected: bool,
    alloc_failed_fragmented: bool,
}

/// Apply one call to both; Err(message) on any disagreement with the reference.
fn apply(m: &mut FreeSpaceManager, r: &mut Reference, call: FsCall, notes: &mut Notes) -> Result<(), String> {
    let before_runs = m.verif_free_runs();
    match call {
        FsCall::Alloc(n) => {
            let res = m.allocate_sectors(n);
            let possible = n > 0 && r.longest() >= n;
            match res {
                Ok(start) => {
                    if !possible {
                        return Err(format!("allocate({n}) returned Ok({start}) although no free run of {n} blocks exists (longest {})", r.longest()));
                    }
                    let Some(end) = start.checked_add(n) else { return Err(format!("allocate({n}) returned {start}: overflow")) };
                    if start < START || end > r.total() {
                        return Err(format!("allocate({n}) returned {start}: outside the data area 16..{}", r.total()));
                    }
                    for b in start..end {
                        if !r.free[(b - START) as usize] {
                            return Err(format!("allocate({n}) returned {start}..{end} but block {b} is already allocated (double allocation)"));
                        }
                    }
                    for b in start..end {
                        r.free[(b - START) as usize] = false;
                    }
                }
                Err(e) => {
                    if possible {
                        return Err(format!("allocate({n}) failed with {e:?} although a free run of {} blocks exists", r.longest()));
                    }
                    if n > 0 && r.free_count() >= n {
                        notes.alloc_failed_fragmented = true;
                    }
                    if m.verif_free_runs() != before_runs {
                        return Err(format!("failed allocate({n}) changed the free set"));
                    }
                }
            }
        }
        FsCall::Release(s, c) => {
            let valid = r.release_valid(s, c);
            let res = m.release_sectors(s, c);
            match res {
                Ok(()) => {
                    if !valid {
                        return Err(format!("release({s}, {c}) was accepted although the range is out of bounds, reserved, empty or overlaps free space"));
                    }
                    let left = s > START && r.free[(s - 1 - START) as usize];
                    let right = s + c < r.total() && r.free[(s + c - START) as usize];
                    if left && right {
                        notes.merged_both = true;
                    }
                    for b in s..s + c {
                        r.free[(b - START) as usize] = true;
                    }
                }
                Err(e) => {
                    if valid {
                        return Err(format!("release({s}, {c}) of an allocated in-bounds range was rejected: {e:?}"));
                    }
                    if m.verif_free_runs() != before_runs {
                        return Err(format!("rejected release({s}, {c}) changed the free set: {before_runs:?} -> {:?}", m.verif_free_runs()));
                    }
                    // partially overlapping: some blocks allocated, some free, in bounds
                    if c > 0 && s >= START && s.checked_add(c).is_some_and(|e| e <= r.total()) {
                        let fr = (s..s + c).filter(|b| r.free[(*b - START) as usize]).count() as u64;
                        if fr > 0 && fr < c {
                            notes.partial_overlap_rejected = true;
                        }
                    }
                }
            }
        }
    }
    // reported aggregates equal the true free set with adjacent runs merged
    let runs = r.runs();
    if m.verif_free_runs() != runs {
        return Err(format!("after {call:?}: manager holds runs {:?} but the true merged free set is {runs:?}", m.verif_free_runs()));
    }
    if m.get_total_free() != r.free_count() * 4096 {
        return Err(format!("after {call:?}: get_total_free()={} but {} blocks are free", m.get_total_free(), r.free_count()));
    }
    if m.get_free_chunks_count() != runs.len() {
        return Err(format!("after {call:?}: get_free_chunks_count()={} but there are {} maximal runs", m.get_free_chunks_count(), runs.len()));
    }
    if m.get_largest_free_chunk() != r.longest() * 4096 {
        return Err(format!("after {call:?}: get_largest_free_chunk()={} but the longest run has {} blocks", m.get_largest_free_chunk(), r.longest()));
    }
    Ok(())
}

thread_local! {
    /// bytes beyond the last whole block of the device under test (devices whose size is not a
    /// multiple of the block size: the partial tail block is not addressable)
    static TAIL_BYTES: std::cell::Cell<u64> = const { std::cell::Cell::new(0) };
}

fn fresh(data_blocks: usize) -> (FreeSpaceManager, Reference) {
    let mut m = FreeSpaceManager::new();
    m.initialize((START + data_blocks as u64) * 4096 + TAIL_BYTES.with(|t| t.get())).expect("initialize");
    (m, Reference::new(data_blocks))
}

fn run_path(data_blocks: usize, path: &[FsCall], notes: &mut Notes) -> Result<(FreeSpaceManager, Reference), (usize, String)> {
    let (mut m, mut r) = fresh(data_blocks);
    for (i, c) in path.iter().enumerate() {
        apply(&mut m, &mut r, *c, notes).map_err(|e| (i, e))?;
    }
    Ok((m, r))
}

fn mask_of(r: &Reference) -> u32 {
    r.free.iter().enumerate().fold(0u32, |a, (i, f)| if *f { a | (1 << i) } else { a })
}

/// Exhaustive BFS over all reachable free-set states of a device with `n` data blocks.
fn exhaustive(n: usize) -> Result<(u64, u64), (Vec<FsCall>, String)> {
    let total = START + n as u64;
    let mut calls: Vec<FsCall> = Vec::new();
    for k in 0..=(n as u64 + 1) {
        calls.push(FsCall::Alloc(k));
    }
    calls.push(FsCall::Alloc(u64::MAX));
    let mut counts: Vec<u64> = (0..=(n as u64 + 1)).collect();
    counts.extend([u64::MAX, u64::MAX - 15, u64::MAX - total]);
    for s in 14..=(total + 1) {
        for c in &counts {
            calls.push(FsCall::Release(s, *c));
        }
    }
    calls.push(FsCall::Release(u64::MAX, 1));
    calls.push(FsCall::Release(0, 1));
    let mut paths: HashMap<u32, Vec<FsCall>> = HashMap::new();
    let mut queue = VecDeque::new();
    let full = (1u32 << n) - 1;
    paths.insert(full, Vec::new());
    queue.push_back(full);
    let mut transitions = 0u64;
    let mut notes = Notes::default();
    while let Some(state) = queue.pop_front() {
        let path = paths[&state].clone();
        for call in &calls {
            let (mut m, mut r) = match run_path(n, &path, &mut notes) {
                Ok(x) => x,
                Err((i, e)) => return Err((path[..=i].to_vec(), e)),
            };
            debug_assert_eq!(mask_of(&r), state);
            transitions += 1;
            if let Err(e) = apply(&mut m, &mut r, *call, &mut notes) {
                let mut p = path.clone();
                p.push(*call);
                return Err((p, e));
            }
            let next = mask_of(&r);
            if !paths.contains_key(&next) {
                let mut p = path.clone();
                p.push(*call);
                paths.insert(next, p);
                queue.push_back(next);
            }
        }
    }
    Ok((paths.len() as u64, transitions))
}

#[derive(Clone, Debug, Serialize, Deserialize)]
pub struct FsCase {
    pub data_blocks: usize,
    /// device size = whole blocks + this many bytes (0..4095)
    #[serde(default)]
    pub tail_bytes: u16,
    /// symbolic calls resolved against the reference while running
    pub calls: Vec<SymCall>,
}

#[derive(Clone, Copy, Debug, Serialize, Deserialize)]
pub enum SymCall {
    Alloc(u16),
    AllocBig(u16),
    /// release the i-th outstanding allocation (scaled), fully
    ReleaseAlloc(u16),
    /// release part of an outstanding allocation: (which, offset, len)
    ReleasePart(u16, u8, u8),
    /// release around the edge of a free run: (which run, start delta -2..2, len)
    ReleaseNearFree(u16, i8, u8),
    /// arbitrary
    ReleaseRaw(u64, u64),
}

fn sym_strategy() -> impl Strategy<Value = SymCall> {
    prop_oneof![
        10 => (1u16..8).prop_map(SymCall::Alloc),
        3 => any::<u16>().prop_map(SymCall::AllocBig),
        8 => any::<u16>().prop_map(SymCall::ReleaseAlloc),
        4 => (any::<u16>(), any::<u8>(), 1u8..6).prop_map(|(a, b, c)| SymCall::ReleasePart(a, b, c)),
        4 => (any::<u16>(), -2i8..=2, 0u8..5).prop_map(|(a, b, c)| SymCall::ReleaseNearFree(a, b, c)),
        1 => (prop_oneof![0u64..40, Just(u64::MAX), Just(u64::MAX - 3), 0u64..5000], prop_oneof![0u64..6, Just(u64::MAX), Just(u64::MAX - 20)]).prop_map(|(a, b)| SymCall::ReleaseRaw(a, b)),
    ]
}

fn case_strategy(max_calls: usize) -> BoxedStrategy<FsCase> {
    (prop_oneof![10usize..64, 64usize..600, 600usize..4000], proptest::collection::vec(sym_strategy(), 1..max_calls), prop_oneof![5 => Just(0u16), 1 => Just(1u16), 1 => Just(512u16), 1 => Just(4095u16), 1 => 1u16..4096])
        .prop_map(|(data_blocks, calls, tail_bytes)| FsCase { data_blocks, calls, tail_bytes })
        .boxed()
}

fn run_sym(case: &FsCase, notes: &mut Notes) -> Result<(), String> {
    TAIL_BYTES.with(|t| t.set(case.tail_bytes as u64));
    let (mut m, mut r) = fresh(case.data_blocks);
    TAIL_BYTES.with(|t| t.set(0));
    let mut outstanding: Vec<(u64, u64)> = Vec::new();
    for (i, sc) in case.calls.iter().enumerate() {
        let call = match *sc {
            SymCall::Alloc(n) => FsCall::Alloc(n as u64),
            SymCall::AllocBig(x) => FsCall::Alloc(1 + (x as u64 * case.data_blocks as u64 >> 16)),
            SymCall::ReleaseAlloc(w) => {
                if outstanding.is_empty() {
                    FsCall::Release(START, 1)
                } else {
                    let (s, n) = outstanding[(w as usize * outstanding.len()) >> 16];
                    FsCall::Release(s, n)
                }
            }
            SymCall::ReleasePart(w, off, len) => {
                if outstanding.is_empty() {
                    FsCall::Release(START + off as u64, len as u64)
                } else {
                    let (s, n) = outstanding[(w as usize * outstanding.len()) >> 16];
                    FsCall::Release(s + (off as u64 % n.max(1)), len as u64)
                }
            }
            SymCall::ReleaseNearFree(w, d, len) => {
                let runs = r.runs();
                if runs.is_empty() {
                    FsCall::Release(START, len as u64)
                } else {
                    let (s, n) = runs[(w as usize * runs.len()) >> 16];
                    let edge = if w & 1 == 0 { s } else { s + n };
                    let start = if d >= 0 { edge.saturating_add(d as u64) } else { edge.saturating_sub((-d) as u64) };
                    FsCall::Release(start, len as u64)
                }
            }
            SymCall::ReleaseRaw(s, c) => FsCall::Release(s, c),
        };
        let before = r.clone();
        apply(&mut m, &mut r, call, notes).map_err(|e| format!("call {i} {call:?}: {e}"))?;
        // maintain the list of outstanding allocations from the reference
        match call {
            FsCall::Alloc(n) => {
                if r.free_count() + n == before.free_count() && n > 0 {
                    // find the newly allocated start
                    if let Some(pos) = (0..r.free.len()).find(|&i| before.free[i] && !r.free[i]) {
                        outstanding.push((START + pos as u64, n));
                    }
                }
            }
            FsCall::Release(s, c) => {
                if r.free_count() != before.free_count() {
                    // split outstanding allocations overlapped by the released range
                    let e = s + c;
                    let mut next = Vec::new();
                    for (a, n) in outstanding.drain(..) {
                        let ae = a + n;
                        if ae <= s || a >= e {
                            next.push((a, n));
                        } else {
                            if a < s {
                                next.push((a, s - a));
                            }
                            if ae > e {
                                next.push((e, ae - e));
                            }
                        }
                    }
                    outstanding = next;
                }
            }
        }
    }
    Ok(())
}

pub fn run(tier: Tier, seed: u64, replay: Option<&str>) -> i32 {
    if let Some(path) = replay {
        let doc: serde_json::Value = serde_json::from_str(&std::fs::read_to_string(path).expect("read")).expect("json");
        let r = if doc["mode"] == "exhaustive" {
            let n = doc["data_blocks"].as_u64().unwrap() as usize;
            let path_calls: Vec<FsCall> = serde_json::from_value(doc["path"].clone()).unwrap();
            TAIL_BYTES.with(|t| t.set(doc["tail_bytes"].as_u64().unwrap_or(0)));
            let r = run_path(n, &path_calls, &mut Notes::default()).map(|_| ()).map_err(|(i, e)| format!("call {i}: {e}"));
            TAIL_BYTES.with(|t| t.set(0));
            r
        } else {
            let case: FsCase = serde_json::from_value(doc["case"].clone()).unwrap();
            run_sym(&case, &mut Notes::default())
        };
        return match r {
            Err(e) => {
                println!("replay: {e}");
                println!("VIOLATION property=C06 replay={path}");
                1
            }
            Ok(()) => {
                println!("replay: the saved case passes on this tree");
                0
            }
        };
    }
    let started = std::time::Instant::now();
    let mut ev = Evidence::new(
        "C06",
        tier,
        seed,
        "exploration",
        "(a) exhaustive breadth-first enumeration of every reachable free-set state of devices with 4..N data blocks under every allocate(n), n in 0..=N+1 and u64::MAX, and every release(s, c), s in 14..=total+1, c in 0..=N+1 plus overflow values (states rebuilt by replaying the BFS path); (b) proptest sequences of symbolic calls (allocate small/large, release whole/partial outstanding allocations, releases around the edges of free runs, raw values incl. overflow) on devices of 10-4000 blocks; device sizes are whole blocks or whole blocks plus 1..4095 bytes (the partial tail block is not addressable; the exhaustive part repeats devices of 4-8 blocks with a 512-byte tail). Oracle: bitmap reference; after every call total free, run count, largest run and the run list equal the true merged free set; failed calls change nothing. Non-trivial (part b): a sequence in which a release merged with both neighbours and a partially overlapping release was rejected; evaluations = sequences + exhaustive transitions.",
    );
    ev.started = started;
    // (a) exhaustive
    let max_n = tier.pick(9, 11);
    let mut states = 0u64;
    let mut transitions = 0u64;
    let mut per_n = serde_json::Map::new();
    // every device once block-aligned and (up to 8 blocks) once with a partial tail block
    let plan: Vec<(usize, u64)> = (4..=max_n).map(|n| (n, 0u64)).chain((4..=max_n.min(8)).map(|n| (n, 512u64))).collect();
    for (n, tail) in plan {
        TAIL_BYTES.with(|t| t.set(tail));
        let res = exhaustive(n);
        TAIL_BYTES.with(|t| t.set(0));
        match res {
            Ok((s, t)) => {
                states += s;
                transitions += t;
                per_n.insert(if tail == 0 { format!("{n}") } else { format!("{n}+{tail}B") }, json!({"states": s, "transitions": t}));
            }
            Err((path, msg)) => {
                let replay = json!({"property": "C06", "mode": "exhaustive", "data_blocks": n, "tail_bytes": tail, "path": serde_json::to_value(&path).unwrap(), "message": msg});
                let known = env::report_violation("C06", "exhaustive", &replay);
                ev.evaluations = transitions.max(1);
                ev.samples.push(json!({"failing_path": format!("{path:?}")}));
                ev.violations = if known { 0 } else { 1 };
                ev.set("failure", json!({"message": msg}));
                ev.write();
                eprintln!("fxv: C06: device with {n} data blocks, path {path:?}: {msg}");
                return if known { 0 } else { 1 };
            }
        }
    }
    ev.set("exhaustive_small_scope", json!({"data_blocks": format!("4..={max_n}"), "states": states, "transitions": transitions, "per_device": per_n, "exhaustive": true}));
    // (b) random sequences
    let evaluations = Arc::new(AtomicU64::new(0));
    let nt = Arc::new(Mutex::new(std::collections::HashSet::<u64>::new()));
    let merged = Arc::new(AtomicU64::new(0));
    let partial = Arc::new(AtomicU64::new(0));
    let frag = Arc::new(AtomicU64::new(0));
    let samples = Arc::new(Mutex::new(Vec::<serde_json::Value>::new()));
    let (e2, n2, m2, p2, f2, s2) = (evaluations.clone(), nt.clone(), merged.clone(), partial.clone(), frag.clone(), samples.clone());
    let check = move |case: &FsCase, counting: bool| -> Result<(), String> {
        let mut notes = Notes::default();
        let r = run_sym(case, &mut notes);
        if counting {
            e2.fetch_add(1, Ordering::Relaxed);
            if notes.merged_both {
                m2.fetch_add(1, Ordering::Relaxed);
            }
            if notes.partial_overlap_rejected {
                p2.fetch_add(1, Ordering::Relaxed);
            }
            if notes.alloc_failed_fragmented {
                f2.fetch_add(1, Ordering::Relaxed);
            }
            if notes.merged_both && notes.partial_overlap_rejected {
                let fp = env::fnv(&serde_json::to_vec(case).unwrap());
                if n2.lock().unwrap().insert(fp) {
                    let mut s = s2.lock().unwrap();
                    if s.len() < 3 {
                        s.push(json!({"data_blocks": case.data_blocks, "calls": case.calls.iter().take(40).map(|c| format!("{c:?}")).collect::<Vec<_>>(), "calls_total": case.calls.len()}));
                    }
                }
            }
        }
        r
    };
    let found = run_lanes(case_strategy(tier.pick(400, 2000)), tier.pick(40_000, 600_000), 2000, seed, env::threads(), check);
    ev.evaluations = evaluations.load(Ordering::Relaxed) + transitions;
    ev.nontrivial = nt.lock().unwrap().clone();
    ev.samples = samples.lock().unwrap().clone();
    if ev.samples.is_empty() {
        ev.samples.push(json!("no non-trivial sequence generated"));
    }
    ev.set("sequences", json!(evaluations.load(Ordering::Relaxed)));
    ev.set("class_counts", json!({"merged_both_neighbours": merged.load(Ordering::Relaxed), "partial_overlap_rejected": partial.load(Ordering::Relaxed), "allocation_failed_although_enough_total_free": frag.load(Ordering::Relaxed)}));
    let mut code = 0;
    if let Some((case, msg)) = found {
        let replay = json!({"property": "C06", "mode": "sequence", "case": serde_json::to_value(&case).unwrap(), "message": msg});
        let known = env::report_violation("C06", "sequence", &replay);
        if !known {
            ev.violations = 1;
            code = 1;
            eprintln!("fxv: C06: {msg}");
        }
        ev.set("failure", json!({"message": msg}));
    }
    ev.write();
    code
}


/// libFuzzer entry: bytes -> calls on a device of 4..64 data blocks.
pub fn fuzz_entry(data: &[u8]) -> Result<(), String> {
    if data.is_empty() {
        return Ok(());
    }
    let n = 4 + (data[0] as usize % 60);
    let (mut m, mut r) = fresh(n);
    let mut notes = Notes::default();
    let total = START + n as u64;
    for (i, c) in data[1..].chunks(3).enumerate() {
        let b = |j: usize| c.get(j).copied().unwrap_or(0) as u64;
        let call = match b(0) % 6 {
            0 | 1 => FsCall::Alloc(b(1) % 9),
            2 | 3 => FsCall::Release(14 + b(1) % (n as u64 + 4), b(2) % 9),
            4 => FsCall::Release(START + b(1) % n as u64, 1 + b(2) % 3),
            _ => {
                let big = [u64::MAX, u64::MAX - 1, u64::MAX - total, 1u64 << 63, total, total + 1, 0];
                FsCall::Release(big[(b(1) % 7) as usize].wrapping_add(b(2) % 3), big[(b(2) % 7) as usize])
            }
        };
        apply(&mut m, &mut r, call, &mut notes).map_err(|e| format!("device with {n} data blocks, call {i} {call:?}: {e}"))?;
    }
    Ok(())
}

//! Engine-A properties: C01 and the sequential parts of C05 C10 C11 C12 C13 C14 C16.

use crate::campaign::{replay_seq, run_seq_campaign, SeqCampaign};
use proptest::strategy::Strategy;
use crate::env::Tier;
use crate::ops::{case_strategy, Bias, Case};
use crate::seq::{self, CaseStats, Failure, Flags, RunOutput};

fn c01_nt(s: &CaseStats) -> bool {
    s.has("read_offloaded_after_modify") || s.has("error_then_readback")
}
fn c05_nt(s: &CaseStats) -> bool {
    s.has("partition_checked") && s.has("released_multi_block_extent") && (s.has("reused_freed_blocks") || s.has("partition_after_out_of_space"))
}
fn c10_nt(s: &CaseStats) -> bool {
    s.has("layout_nontrivial")
}
fn c11_nt(s: &CaseStats) -> bool {
    s.has("call_within_1ns_of_expiry") || s.has("reopen_dropped_expired") || (s.has("rmw_on_offloaded") && s.has("ttl_update_on_offloaded"))
}
fn c12_nt(s: &CaseStats) -> bool {
    s.has("auto_after_future_ts") || s.has("auto_after_reopen") || s.has("auto_after_failed_explicit")
}
fn c13_nt(s: &CaseStats) -> bool {
    s.has("grow_after_shrink") && s.has("refused_oom")
}
fn c14_nt(s: &CaseStats) -> bool {
    s.has("range_limit_cut_with_expired") || (s.has("range_with_expired_inside") && s.has("range_over_offloaded"))
}
fn c16_nt(s: &CaseStats) -> bool {
    s.has("cached_then_modified_then_read")
}

/// C16: the same program with the cache switched the other way must also agree with the model.
fn cache_flip(case: &Case, _first: &RunOutput) -> Result<(), Failure> {
    let mut other = case.clone();
    other.cfg.cache = !case.cfg.cache;
    // keep the cache switch fixed for the whole run so the two executions differ only in it
    for op in &mut other.ops {
        if let crate::ops::Op::Reopen { cache, .. } = op {
            *cache = cache.map(|c| !c);
        }
    }
    let flags = Flags { results: true, snapshot: true, readback: true, range: true, ..Flags::default() };
    let out = seq::run_case(&other, &flags);
    match out.failure {
        Some(mut f) if f.oracle != "foreign" => {
            f.msg = format!("with the cache switched {}: [{}] {}", if other.cfg.cache { "on" } else { "off" }, f.oracle, f.msg);
            f.oracle = "cachediff";
            Err(f)
        }
        _ => Ok(()),
    }
}

const ASSUME_CLOCK: &str = "virtual clock via the thread-local clock hook; automatic timestamps are observed through the peek hook and adopted after the C12 constraints were checked";
const ASSUME_EXPIRED: &str = "expired-but-present generations may be treated as present or absent by a call and may vanish at any time (lazy retirement); everything else is exact";

pub fn campaign(id: &str, tier: Tier) -> SeqCampaign {
    let base_rule = "proptest-generated call sequences over a per-case key universe, one configuration per case from {memory,persistent}x{cache}x{ttl}x{v1,v2,v3}x{device size}x{memory limit}x{io path}; ";
    match id {
        "C01" => {
            let bias = Bias { max_ops: tier.pick(45, 120), near_max_ts: true, ..Bias::default() };
            SeqCampaign {
                property: "C01",
                level: "exploration",
                strategy: proptest::strategy::Union::new_weighted(vec![(24, case_strategy(&bias)), (1, crate::ops::wide_extent_strategy(vec![1, 2, 3, 3]))]).boxed(),
                flags: Flags { results: true, snapshot: true, readback: true, range: true, ..Flags::default() },
                owned: vec!["results", "snapshot", "readback", "range"],
                cases: tier.pick(2400, 16000),
                shrink_iters: 300,
                nontrivial: c01_nt,
                rule: format!("{base_rule}every call result must be admitted by the last-writer-wins model, the store snapshot (keys, timestamps, expiries, lengths, both indexes) must equal the model after every step, reads are compared by policy (all keys + full range each step / touched key / end). Non-trivial: a get served from cache or disk after the key had at least two generations, or an erroring call followed by a read-back of the same key. Distinct = distinct case fingerprints."),
                assumptions: vec![ASSUME_CLOCK.into(), ASSUME_EXPIRED.into()],
                extra: None,
            }
        }
        "C05" => {
            let bias = Bias {
                max_ops: tier.pick(60, 200),
                persistent: Some(true),
                cache: Some(false),
                tiny_device: 12,
                large_device: 0,
                memory_limit: 0,
                invalid: 1,
                // TTL keys that are flushed, expire (virtual clock) and are then met by increments,
                // swaps and re-creations: the lazy-expiry paths retire durable extents too
                ttl_ops: 5,
                range_ops: 1,
                ts_explicit: 1,
                multi_block: 10,
                hostile: 1,
                big_values: false,
                flush: 14,
                reopen: 2,
                sleep: 1,
                long_keys: false,
                json: 0,
                counters: 4,
                ..Bias::default()
            };
            SeqCampaign {
                property: "C05",
                level: "exploration",
                strategy: proptest::strategy::Union::new_weighted(vec![(6, case_strategy(&bias)), (4, crate::ops::fill_cycle_strategy(vec![1, 2, 3, 3])), (1, crate::ops::wide_extent_strategy(vec![1, 2, 3, 3]))]).boxed(),
                flags: Flags { results: true, snapshot: true, readback: true, partition: true, ..Flags::default() },
                owned: vec!["partition", "readback"],
                cases: tier.pick(900, 8000),
                shrink_iters: 300,
                nontrivial: c05_nt,
                rule: format!("{base_rule}biased to tiny devices (24-80 data blocks), 1-6 block extents, heavy overwrite/delete and frequent flush. After every acknowledged flush the snapshot must partition the data area exactly (live extents in bounds, disjoint, disjoint from free runs, union = data area, free runs merged, usage counter and persisted counters equal the live totals) and every key reads back byte for byte from disk. Two generators: free-form sequences, and fill cycles (fill past capacity -> flush (OutOfSpace) -> delete part -> flush -> overwrite -> delete everything -> flush: the free pool must be the whole data area -> refill with the first set). Non-trivial: a quiescent point after a multi-block extent was released and either freed blocks were reused by a new extent or an earlier flush had run out of space."),
                assumptions: vec![ASSUME_CLOCK.into(), "quiescent point = flush() returned Ok on the only application thread".into()],
                extra: None,
            }
        }
        "C10" => {
            let bias = Bias {
                max_ops: tier.pick(50, 150),
                persistent: Some(true),
                versions: vec![1, 2, 3, 3],
                tiny_device: 2,
                memory_limit: 0,
                invalid: 1,
                multi_block: 8,
                hostile: 3,
                flush: 12,
                reopen: 2,
                near_max_ts: true,
                ..Bias::default()
            };
            SeqCampaign {
                property: "C10",
                level: "exploration",
                strategy: proptest::strategy::Union::new_weighted(vec![(9, case_strategy(&bias)), (1, crate::ops::wide_extent_strategy(vec![1, 2, 3, 3]))]).boxed(),
                flags: Flags { results: true, snapshot: true, layout: true, ..Flags::default() },
                owned: vec!["layout"],
                cases: tier.pick(900, 8000),
                shrink_iters: 300,
                nontrivial: c10_nt,
                rule: format!("{base_rule}persistent only, v1/v2/v3 devices (v1/v2 built by the harness's own legacy writer). After every acknowledged flush the file is decoded by the independent codec (own CRC32C, tokens, journal, metadata): exactly the model's live (key, value, timestamp, expiry) set, no superseded generation, every other data block a valid complete retirement marker or zeros, newest journal slot clear, newest metadata copy valid with counters equal to the live totals, version unchanged, legacy record layout on v1/v2. Non-trivial: a flush after which the file holds a multi-block record, a retirement marker run and metadata generation >= 2."),
                assumptions: vec![ASSUME_CLOCK.into(), "the documented layout is the layout of the pinned release as transcribed into harness/src/layout.rs".into()],
                extra: None,
            }
        }
        "C11" => {
            let bias = Bias {
                max_ops: tier.pick(50, 140),
                ttl: None,
                ttl_ops: 22,
                ts_explicit: 5,
                flush: 7,
                reopen: 4,
                big_values: false,
                multi_block: 2,
                memory_limit: 0,
                invalid: 1,
                ..Bias::default()
            };
            SeqCampaign {
                property: "C11",
                level: "exploration",
                strategy: case_strategy(&bias),
                flags: Flags { results: true, snapshot: true, readback: true, range: true, ..Flags::default() },
                owned: vec!["results#ttl", "snapshot#ttl", "readback#ttl", "range#ttl"],
                cases: tier.pick(1600, 12000),
                shrink_iters: 300,
                nontrivial: c11_nt,
                rule: format!("{base_rule}biased to TTL calls through every API (insert*, CAS, increment, update_ttl, persist, get_ttl), explicit timestamps placing the expiry before/at/after the virtual now, clock moves to expiry-1ns / expiry / expiry+1ns, flush and reopen (TTL switch may change) between write and read. Judged: no value-reading call returns a generation at now > expiry, unexpired generations are never missing, absolute expiry and value unchanged across flush/reopen and TTL-only updates (snapshot + read-back). Non-trivial: a call within 1 ns of an expiry instant, a reopen that dropped an expired generation, or a TTL-only update of an offloaded key."),
                assumptions: vec![ASSUME_CLOCK.into(), ASSUME_EXPIRED.into(), "failures are attributed to C11 only when the call, the key's generation or the difference involves an expiry".into()],
                extra: None,
            }
        }
        "C12" => {
            let bias = Bias {
                max_ops: tier.pick(70, 160),
                many_keys: true,
                long_keys: false,
                ts_explicit: 8,
                near_max_ts: true,
                ttl_ops: 3,
                range_ops: 0,
                invalid: 3,
                big_values: false,
                multi_block: 1,
                hostile: 0,
                memory_limit: 2,
                flush: 4,
                reopen: 3,
                sleep: 0,
                tiny_device: 0,
                large_device: 0,
                ..Bias::default()
            };
            SeqCampaign {
                property: "C12",
                level: "exploration",
                strategy: proptest::strategy::Union::new_weighted(vec![(9, case_strategy(&bias)), (1, crate::ops::budget_explicit_strategy())]).boxed(),
                flags: Flags { results: true, snapshot: true, ts: true, ..Flags::default() },
                owned: vec!["ts", "snapshot#ts"],
                cases: tier.pick(1600, 12000),
                shrink_iters: 300,
                nontrivial: c12_nt,
                rule: format!("{base_rule}40-130 keys per case (so the 64 clock shards collide), mixes of automatic and explicit (past, relative, far-future, near-maximum) timestamps over all mutating calls, failing explicit calls, flush and reopen; one case in ten runs a handful of keys against a 2.5-9 KB memory budget with growing updates (copying and zero-copy API) that carry explicit future timestamps and are refused with OutOfMemory. After each accepted automatic call the assigned timestamp (peek hook) must exceed the key's previous timestamp and every explicit timestamp accepted for the key since the last restart, must not exceed max(now, highest accepted/assigned/recovered timestamp + 1) (a failed call's timestamp was not absorbed), must not be the maximum unless the key itself was pinned there, an automatic call is never rejected as older unless the key is pinned, and recovered timestamps equal the model's. Non-trivial: an automatic call on a key whose timestamp was explicit and in the future, or directly after reopen, or after a failed explicit call carrying a future timestamp."),
                assumptions: vec![ASSUME_CLOCK.into(), "explicit timestamps of keys deleted before a restart are not required to be remembered across that restart".into()],
                extra: None,
            }
        }
        "C13" => {
            let bias = Bias {
                max_ops: tier.pick(70, 160),
                memory_limit: 10,
                big_values: false,
                multi_block: 2,
                hostile: 0,
                ttl_ops: 4,
                range_ops: 1,
                invalid: 2,
                flush: 4,
                reopen: 2,
                sleep: 0,
                long_keys: true,
                ..Bias::default()
            };
            SeqCampaign {
                property: "C13",
                level: "exploration",
                strategy: case_strategy(&bias),
                flags: Flags { results: true, snapshot: true, mem: true, ..Flags::default() },
                owned: vec!["mem", "results#oom"],
                cases: tier.pick(2000, 14000),
                shrink_iters: 300,
                nontrivial: c13_nt,
                rule: format!("{base_rule}biased to tight memory limits (2-40 KB) and growing/shrinking updates. After every call memory_usage() must equal the sum over stored keys of (size_of::<Record>() + key length + value length) and len() the number of stored keys, also after flush, reopen and lazy expiry; a write is refused with OutOfMemory exactly when it would push usage above the limit, and a refusal changes neither the counters nor the contents. Non-trivial: a sequence with a shrinking then growing update of one key and a refused write."),
                assumptions: vec![ASSUME_CLOCK.into(), "expired-but-present generations are counted until they are removed (the model tracks their removal through the peek hook)".into()],
                extra: None,
            }
        }
        "C14" => {
            let bias = Bias {
                max_ops: tier.pick(60, 150),
                range_ops: 26,
                ttl_ops: 8,
                big_values: false,
                multi_block: 2,
                hostile: 0,
                memory_limit: 1,
                invalid: 2,
                flush: 6,
                reopen: 2,
                sleep: 0,
                ..Bias::default()
            };
            SeqCampaign {
                property: "C14",
                level: "exploration",
                strategy: proptest::strategy::Union::new_weighted(vec![(18, case_strategy(&bias)), (1, crate::ops::long_range_strategy()), (1, crate::ops::budget_explicit_strategy())]).boxed(),
                flags: Flags { results: true, snapshot: true, range: true, readback: true, ..Flags::default() },
                owned: vec!["range", "readback", "snapshot"],
                cases: tier.pick(2000, 14000),
                shrink_iters: 300,
                nontrivial: c14_nt,
                rule: format!("{base_rule}biased to range queries: bounds from the key universe +/- one byte, empty, 0xff.., start > end, limits 0/1/k/usize::MAX, over resident, cached and disk-only values and over expired entries; one case in twenty populates 257-620 keys (plain, short and long TTL) and queries ranges with limits around 256/512 after deletes, updates and clock advances, so the scan crosses its 256-entry re-pin boundary; another one in twenty runs a few keys against a 2.5-9 KB memory budget (refused growing updates through both APIs followed by full-range queries). Result must be exactly the model's live unexpired keys in [start, end], ascending, first `limit`, with current values; both indexes hold the same key set after every step. Non-trivial: a query whose limit cut a range that contained expired entries, or a range with expired entries inside read from offloaded values."),
                assumptions: vec![ASSUME_CLOCK.into(), ASSUME_EXPIRED.into()],
                extra: None,
            }
        }
        "C16" => {
            let bias = Bias {
                max_ops: tier.pick(90, 160),
                persistent: Some(true),
                cache: Some(true),
                get_weight: 45,
                few_keys: true,
                flush: 18,
                reopen: 3,
                big_values: false,
                multi_block: 4,
                memory_limit: 0,
                invalid: 1,
                ttl_ops: 5,
                ts_explicit: 6,
                sleep: 1,
                tiny_device: 1,
                ..Bias::default()
            };
            SeqCampaign {
                property: "C16",
                level: "exploration",
                strategy: case_strategy(&bias),
                flags: Flags { results: true, snapshot: true, readback: true, range: true, ..Flags::default() },
                owned: vec!["results", "snapshot", "readback", "range", "cachediff"],
                cases: tier.pick(700, 6000),
                shrink_iters: 200,
                nontrivial: c16_nt,
                rule: format!("{base_rule}persistent programs executed twice, cache on and cache off, both against the same model (call results, snapshot, read-back): get-heavy programs with frequent flush so values are served from the cache, then updated / deleted / recreated with lower timestamps / TTL-changed / reopened and read again. Non-trivial: a read served from the cache for a key that was subsequently modified and read again. (The cache's own accounting and eviction are judged by the unit campaign reported under cache_unit.)"),
                assumptions: vec![ASSUME_CLOCK.into(), "the two executions are compared through the model, not transcript to transcript, because automatic timestamps depend on per-process hash seeds".into()],
                extra: Some(cache_flip),
            }
        }
        _ => unreachable!(),
    }
}

pub fn run(id: &str, tier: Tier, seed: u64, replay: Option<&str>) -> i32 {
    let c = campaign(id, tier);
    if let Some(path) = replay {
        return replay_seq(path, &c.flags, &c.owned);
    }
    run_seq_campaign(c, tier, seed)
}


/// libFuzzer entry: bytes -> call sequence on a memory-only store (fast: no device, no drop cost),
/// judged by the model, the snapshot, the counters, the timestamp constraints and the range oracle.
pub fn fuzz_entry(data: &[u8]) -> Result<(), String> {
    use crate::ops::*;
    use arbitrary::Unstructured;
    let mut u = Unstructured::new(data);
    let ttl: bool = u.arbitrary().unwrap_or(true);
    let limit: u8 = u.arbitrary().unwrap_or(0);
    let cfg = Config { persistent: false, version: 3, cache: false, ttl, dev: DevSize::Normal, max_memory: if limit % 4 == 0 { Some(3000 + limit as usize * 40) } else { None }, plain_io: true, legacy_plain_meta: false, visible_cpus: 0 };
    let keys: Vec<Vec<u8>> = vec![b"a".to_vec(), b"a\0".to_vec(), b"ab".to_vec(), b"b".to_vec(), b"\xff".to_vec(), b"user:1".to_vec()];
    let mut ops = Vec::new();
    while ops.len() < 80 {
        let Ok(kind) = u.int_in_range(0u8..=17) else { break };
        let k = KeyRef::Idx(u.arbitrary::<u16>().unwrap_or(0));
        let k = match u.int_in_range(0u8..=30).unwrap_or(0) {
            0 => KeyRef::Empty,
            1 => KeyRef::Huge,
            2 => KeyRef::AtRecoverable,
            _ => k,
        };
        let ts = match u.int_in_range(0u8..=12).unwrap_or(0) {
            0..=5 => TsSpec::Auto,
            6 => TsSpec::Zero,
            7 => TsSpec::Abs(u.int_in_range(1u64..=40).unwrap_or(1)),
            8 => TsSpec::RelCur(u.int_in_range(-1i64..=2).unwrap_or(0)),
            9 => TsSpec::RelNow(u.int_in_range(-1i64..=1).unwrap_or(0)),
            10 => TsSpec::RelNow(1_000_000_000_000),
            11 => TsSpec::MaxMinus1,
            _ => TsSpec::Max,
        };
        let v = ValSpec {
            len: match u.int_in_range(0u8..=9).unwrap_or(1) {
                0 => LenClass::Empty,
                1 => LenClass::One,
                2 => LenClass::Eight,
                9 => LenClass::Multi(2, u.arbitrary().unwrap_or(0)),
                _ => LenClass::Small(u.int_in_range(2u16..=500).unwrap_or(9)),
            },
            kind: match u.int_in_range(0u8..=5).unwrap_or(0) {
                0 => ValKind::Json,
                1 => ValKind::Counter(u.arbitrary().unwrap_or(1)),
                _ => ValKind::Stamp,
            },
        };
        let ttl_s = [0u64, 1, 60, 3, u64::MAX, u64::MAX / NS][u.int_in_range(0usize..=5).unwrap_or(1)];
        ops.push(match kind {
            0 | 1 => Op::Insert { k, v, ts, bytes: kind == 1 },
            2 => Op::InsertTtl { k, v, ttl: ttl_s, ts, bytes: u.arbitrary().unwrap_or(false) },
            3 | 4 => Op::Get { k, bytes: kind == 4 },
            5 => Op::Delete { k, ts },
            6 => Op::Cas { k, expect: [Expect::Current, Expect::Stale, Expect::Random(3)][u.int_in_range(0usize..=2).unwrap_or(0)], v, ts, ttl: u.arbitrary::<bool>().unwrap_or(false).then_some(ttl_s) },
            7 => Op::Incr { k, delta: [1i64, -1, i64::MAX, i64::MIN, 7][u.int_in_range(0usize..=4).unwrap_or(0)], ts, ttl: u.arbitrary::<bool>().unwrap_or(false).then_some(ttl_s) },
            8 => Op::InsertIfAbsent { k, v },
            9 => Op::JsonPatch { k, patch: [PatchKind::ReplaceN(5), PatchKind::AddField(1), PatchKind::RemoveField, PatchKind::FailingTest, PatchKind::Malformed, PatchKind::Grow(300), PatchKind::Empty, PatchKind::AddSame, PatchKind::TestSame][u.int_in_range(0usize..=8).unwrap_or(0)], ts },
            10 => Op::UpdateTtl { k, ttl: ttl_s },
            11 => Op::Persist { k },
            12 => Op::GetTtl { k },
            13 => Op::Range { start: [BoundSpec::Empty, BoundSpec::Key(k), BoundSpec::KeyMinus(k), BoundSpec::KeyPlus(k)][u.int_in_range(0usize..=3).unwrap_or(0)], end: [BoundSpec::AllFf, BoundSpec::Key(k), BoundSpec::KeyPlus(k), BoundSpec::Empty][u.int_in_range(0usize..=3).unwrap_or(0)], limit: [0u32, 1, 3, u32::MAX][u.int_in_range(0usize..=3).unwrap_or(3)] },
            14 => Op::Advance(Advance::Ns([1u64, NS - 1, NS, NS + 1, 61 * NS][u.int_in_range(0usize..=4).unwrap_or(0)])),
            15 => Op::Advance(Advance::ToExpiry(k, u.int_in_range(-1i64..=1).unwrap_or(0))),
            16 => Op::GetSize { k },
            _ => Op::Contains { k },
        });
    }
    if ops.is_empty() {
        return Ok(());
    }
    let case = Case { cfg, keys, t0_offset: 3 * (data.len() as u64 % 1000), ops };
    let flags = Flags { results: true, snapshot: true, readback: true, mem: true, ts: true, range: true, ..Flags::default() };
    let out = seq::run_case(&case, &flags);
    match out.failure {
        Some(f) if f.oracle != "foreign" => Err(format!("[{}/{}] step {}: {} | case: {}", f.oracle, f.signature, f.step, f.msg, serde_json::to_string(&case).unwrap_or_default())),
        _ => Ok(()),
    }
}

//! C09 (engine C): per-I/O-call fault plans over generated workloads. I/O failures must be
//! reported, contained, and never destroy durable data; a healed (or reopened) device flushes.

use std::collections::BTreeMap;
use std::sync::atomic::{AtomicU64, Ordering};
use std::sync::{Arc, Mutex};

use proptest::prelude::*;
use serde::{Deserialize, Serialize};
use serde_json::json;

use crate::campaign::{case_summary, run_lanes};
use crate::crash::{self, Hist, WorkloadRun};
use crate::env::{self, Evidence, Tier};
use crate::layout;
use crate::model;
use crate::ops::{case_strategy, Bias, Case, Op};
use crate::seq::{self, CaseStats, Flags, Runner};
use crate::trace::{self, FaultMode, FaultPlan, Mark};

#[derive(Clone, Debug, Serialize, Deserialize)]
pub struct PlanSpec {
    pub k: u16,
    /// 0 = forever
    pub count: u8,
    pub after: bool,
    pub second: Option<(u16, bool)>,
    /// 0 = any write/fsync, 1 = data-area writes only, 2 = journal writes, 3 = fsyncs, 4 = metadata
    /// writes, 5 = record writes only (retirement markers still work), 6 = marker writes only
    #[serde(default)]
    pub site: u8,
    /// site-filtered plans: absolute index of the first failing call at that site
    #[serde(default)]
    pub from_abs: Option<u32>,
}

#[derive(Clone, Debug, Serialize, Deserialize)]
pub struct FaultCase {
    pub case: Case,
    pub plans: Vec<PlanSpec>,
}

fn plan_strategy() -> BoxedStrategy<PlanSpec> {
    (
        any::<u16>(),
        prop_oneof![5 => Just(1u8), 2 => Just(2u8), 3 => Just(3u8), 1 => Just(7u8), 2 => Just(0u8)],
        any::<bool>(),
        proptest::option::weighted(0.3, (any::<u16>(), any::<bool>())),
        prop_oneof![10 => Just(0u8), 3 => Just(1u8), 2 => Just(2u8), 2 => Just(3u8), 2 => Just(4u8), 2 => Just(5u8), 1 => Just(6u8)],
    )
        .prop_map(|(k, count, after, second, site)| PlanSpec { k, count, after, second: if site == 0 { second } else { None }, site, from_abs: None })
        .boxed()
}

fn bias(tier: Tier) -> Bias {
    Bias {
        max_ops: tier.pick(24, 40),
        persistent: Some(true),
        versions: vec![1, 2, 3, 3, 3],
        tiny_device: 0,
        large_device: 0,
        memory_limit: 0,
        invalid: 0,
        ttl_ops: 2,
        range_ops: 1,
        ts_explicit: 2,
        multi_block: 5,
        hostile: 1,
        big_values: false,
        flush: 10,
        reopen: 0,
        sleep: 2,
        long_keys: false,
        ttl_toggle: false,
        ..Bias::default()
    }
}

/// A write burst through one shard: more than 1024 buffered entries while the device is failing.
fn burst_strategy() -> BoxedStrategy<FaultCase> {
    use crate::ops::{key_at, Config, DevSize, LenClass, TsSpec, ValKind, ValSpec};
    (60usize..250, 600usize..1500, any::<bool>(), 0u64..1_000_000_000_000u64, proptest::collection::vec((0u16..20_000, prop_oneof![Just(0u8), Just(0u8), Just(3u8), Just(7u8)], any::<bool>()), 1..3), proptest::collection::vec((any::<u16>(), 1u16..200), 600..1500))
        .prop_map(|(nkeys, _writes, plain_io, t0_offset, plans, writes)| {
            let cfg = Config { persistent: true, version: 3, cache: false, ttl: false, dev: DevSize::Normal, max_memory: None, plain_io, legacy_plain_meta: false, visible_cpus: 2 };
            let keys: Vec<Vec<u8>> = (0..nkeys).map(|i| format!("b{i:03}").into_bytes()).collect();
            let mut ops: Vec<Op> = Vec::new();
            // a first acknowledged generation of a few keys, then the burst, then a flush
            for j in 0..8.min(nkeys) {
                ops.push(Op::Insert { k: key_at(j, nkeys), v: ValSpec { len: LenClass::Small(30), kind: ValKind::Stamp }, ts: TsSpec::Auto, bytes: false });
            }
            ops.push(Op::Flush);
            for (k, l) in writes {
                ops.push(Op::Insert { k: crate::ops::KeyRef::Idx(k), v: ValSpec { len: LenClass::Small(l), kind: ValKind::Stamp }, ts: TsSpec::Auto, bytes: false });
            }
            ops.push(Op::Flush);
            let plans = plans.into_iter().map(|(k, count, after)| PlanSpec { k, count, after, second: None, site: 0, from_abs: None }).collect();
            FaultCase { case: Case { cfg, keys, t0_offset, ops }, plans }
        })
        .boxed()
}

/// Chains of unwritten generations behind a durable one: every key gets an acknowledged first
/// generation, then record writes fail (markers, journal and metadata keep working) while keys
/// are updated once to three times per round, with flushes (several workers) and sleeps (periodic
/// flusher) in between, so retirement passes run again and again during the outage.
fn chain_strategy() -> BoxedStrategy<FaultCase> {
    use crate::ops::{key_at, Config, DevSize, LenClass, TsSpec, ValKind, ValSpec};
    // (key, repetitions, length, through the zero-copy API)
    let round = (proptest::collection::vec((any::<u16>(), 1u8..4, 1u16..300, any::<bool>()), 1..5), prop_oneof![3 => Just(0u8), 2 => Just(1u8), 1 => Just(2u8)]);
    (
        6usize..16,
        prop_oneof![Just(4u8), Just(6u8), Just(8u8), Just(16u8), Just(2u8)],
        any::<bool>(),
        0u64..1_000_000_000_000u64,
        proptest::collection::vec(round, 2..6),
        prop_oneof![2 => Just(0u8), 1 => Just(9u8), 1 => Just(30u8), 1 => Just(3u8)],
        prop_oneof![3 => Just(5u8), 1 => Just(1u8)],
        0u32..4,
    )
        .prop_map(|(nkeys, visible_cpus, plain_io, t0_offset, rounds, count, site, slack)| {
            let cfg = Config { persistent: true, version: 3, cache: false, ttl: false, dev: DevSize::Normal, max_memory: None, plain_io, legacy_plain_meta: false, visible_cpus };
            let keys: Vec<Vec<u8>> = (0..nkeys).map(|i| format!("c{i:02}").into_bytes()).collect();
            let put = |j: usize, l: u16, bytes: bool| Op::Insert { k: key_at(j, nkeys), v: ValSpec { len: LenClass::Small(l), kind: ValKind::Stamp }, ts: TsSpec::Auto, bytes };
            let mut ops: Vec<Op> = (0..nkeys).map(|j| put(j, 40, j % 3 == 0)).collect();
            ops.push(Op::Flush);
            for (updates, end) in rounds {
                for (k, times, l, bytes) in updates {
                    let j = (k as usize * nkeys) >> 16;
                    for t in 0..times {
                        ops.push(put(j, l + t as u16, bytes));
                    }
                }
                ops.push(Op::Flush);
                match end {
                    1 => ops.push(Op::Sleep),
                    2 => {
                        ops.push(Op::Sleep);
                        ops.push(Op::Flush);
                    }
                    _ => {}
                }
            }
            // the first nkeys record writes (the acknowledged generations) succeed
            let plans = vec![PlanSpec { k: 0, count, after: false, second: None, site, from_abs: Some(nkeys as u32 + slack) }];
            FaultCase { case: Case { cfg, keys, t0_offset, ops }, plans }
        })
        .boxed()
}

fn case_strat(tier: Tier) -> BoxedStrategy<FaultCase> {
    let normal = (case_strategy(&bias(tier)), proptest::collection::vec(plan_strategy(), tier.pick(3, 6)..tier.pick(6, 12)))
        .prop_map(|(case, plans)| FaultCase { case, plans })
        .boxed();
    proptest::strategy::Union::new_weighted(vec![(12, normal), (1, burst_strategy()), (3, chain_strategy())]).boxed()
}

#[derive(Default, Clone)]
pub struct FaultNotes {
    pub injected: usize,
    pub surfaced: bool,
    pub sites: BTreeMap<String, u64>,
    pub indeterminate: bool,
    pub healed_flush_ok: bool,
    pub reopened_after_indeterminate: bool,
    pub images_judged: u64,
    pub io_calls: usize,
}

fn gen_of(g: Option<&model::Gen>) -> Option<crash::GenInfo> {
    g.map(|g| crash::GenInfo { value: g.value.clone(), ts: g.ts, expiry: g.expiry })
}

/// Judge the device as it stands at the end of `entries`: both the durable-only and the
/// as-written image must recover to states inside the window.
fn judge_device(run: &WorkloadRun, what: &str, notes: &mut FaultNotes) -> Result<(), (String, String)> {
    if run.entries.is_empty() {
        return Ok(());
    }
    let p = run.entries.len() - 1;
    let info = crash::point_info(&run.entries, p, 0);
    let (durable, volatile) = trace::split_at(&run.entries, p);
    for (name, subset) in [("durable-only", vec![false; volatile.len()]), ("as-written", vec![true; volatile.len()])] {
        let img = trace::build_image(&run.base, &run.entries, &durable, &volatile, &subset, None);
        notes.images_judged += 1;
        match crash::open_image(&img, &run.cfg, info.now, false, false) {
            Err(e) => {
                return Err(("device-unrecoverable-after-fault".into(), format!("{what}: the {name} image of the device does not recover: {e}")));
            }
            Ok(o) => {
                if let Err(v) = crash::judge(run, &o.contents, &info) {
                    return Err((format!("fault-{}", v.signature), format!("{what}: {name} image: {}", v.msg)));
                }
            }
        }
    }
    Ok(())
}

thread_local! {
    /// C05 stage: judge the block partition at the acknowledged flush that follows the outage
    pub static CHECK_PARTITION: std::cell::Cell<bool> = const { std::cell::Cell::new(false) };
}

pub fn run_with_plan(case: &Case, plan: Option<&PlanSpec>, n_estimate: usize, notes: &mut FaultNotes, stats_out: &mut CaseStats) -> Result<(), (String, String)> {
    let cfg = case.cfg.clone();
    let path = env::fresh_path("flt");
    let blocks = cfg.dev.blocks();
    let base = if cfg.version < 3 {
        let img = layout::fresh_image(cfg.version, blocks, cfg.legacy_plain_meta);
        std::fs::write(&path, &img).expect("legacy device");
        img
    } else {
        std::fs::File::create(&path).expect("create device");
        vec![0u8; blocks as usize * 4096]
    };
    let dev = trace::register(&path, true);
    let flags = Flags { results: true, snapshot: true, readback: true, range: true, ..Flags::default() };
    let mut hist: BTreeMap<Vec<u8>, Vec<Hist>> = BTreeMap::new();
    for k in &case.keys {
        hist.insert(k.clone(), vec![Hist { step: -1, gen: None }]);
    }
    let mut runner = match Runner::with_path(case, &flags, Some(path.clone()), Some(dev.clone())) {
        Ok(r) => r,
        Err(e) => {
            trace::unregister(&path);
            let _ = std::fs::remove_file(&path);
            return Err(("open-failed-without-fault".into(), format!("opening a fresh device failed: {e}")));
        }
    };
    runner.fault_dev = Some(dev.clone());
    runner.readback_policy = Some(if case.ops.len() > 200 { 1 } else { 0 });
    // install the plan relative to the I/O calls that follow the open
    let calls_at_open = dev.lock().unwrap().io_calls;
    if let Some(p) = plan {
        let span = n_estimate.saturating_sub(calls_at_open).max(4);
        // with a site filter the index counts calls at that site only (about a quarter of all calls)
        let from = match (p.site, p.from_abs) {
            (0, _) => calls_at_open + ((p.k as usize * span) >> 16),
            (_, Some(a)) => a as usize,
            _ => (p.k as usize * (span / 4).max(2)) >> 16,
        };
        let second = p.second.map(|(k2, a2)| (calls_at_open + ((k2 as usize * span) >> 16), if a2 { FaultMode::After } else { FaultMode::Before }));
        dev.lock().unwrap().plan = Some(FaultPlan {
            from,
            count: if p.count == 0 { usize::MAX } else { p.count as usize },
            mode: if p.after { FaultMode::After } else { FaultMode::Before },
            errno: libc::EIO,
            second,
            period: 0,
            site: match p.site { 1 => Some("data-write"), 2 => Some("journal-write"), 3 => Some("fsync"), 4 => Some("metadata-write"), 5 => Some("record-write"), 6 => Some("marker-write"), _ => None },
        });
    }
    let snapshot_run = |dev: &trace::DeviceRef, hist: &BTreeMap<Vec<u8>, Vec<Hist>>, now: u64| -> WorkloadRun {
        WorkloadRun { cfg: cfg.clone(), base: base.clone(), entries: dev.lock().unwrap().entries.clone(), hist: hist.clone(), stats: CaseStats::default(), usable: true, note: String::new(), final_now: now }
    };
    let mut result: Result<(), (String, String)> = Ok(());
    for (step, op) in case.ops.iter().enumerate() {
        trace::mark(&dev, Mark::OpBegin { step, now: runner.model.now });
        let is_flush = matches!(op, Op::Flush);
        if is_flush {
            trace::mark(&dev, Mark::FlushBegin { step });
        }
        let key = op.key().map(|k| runner.resolve_key(k));
        let pre = key.as_ref().and_then(|k| gen_of(runner.model.map.get(k)));
        let tlen = runner.transcript.len();
        if let Some(f) = runner.step(step, op) {
            result = Err((format!("{}-{}", f.oracle, f.signature), format!("step {step}: {}", f.msg)));
            break;
        }
        if let Some(k) = &key {
            let post = gen_of(runner.model.map.get(k));
            if pre != post {
                hist.entry(k.clone()).or_insert_with(|| vec![Hist { step: -1, gen: None }]).push(Hist { step: step as i64, gen: post });
            }
        }
        if is_flush {
            let ok = runner.transcript.len() > tlen && matches!(runner.transcript.last(), Some(model::Res::Unit));
            trace::mark(&dev, if ok { Mark::FlushOk { step } } else { Mark::FlushErr { step } });
            trace::mark(&dev, Mark::OpEnd { step });
            // (b)/(c): the device as it stands recovers to a state no older than the acknowledged one
            let run = snapshot_run(&dev, &hist, runner.model.now);
            if let Err(e) = judge_device(&run, &format!("after flush at step {step} returned {}", if ok { "Ok" } else { "Err" }), notes) {
                result = Err(e);
                break;
            }
        } else {
            trace::mark(&dev, Mark::OpEnd { step });
        }
    }
    // heal the device
    {
        let mut d = dev.lock().unwrap();
        notes.injected = d.faults_injected;
        notes.io_calls = d.io_calls;
        for (_, site) in &d.injected_sites {
            *notes.sites.entry(site.to_string()).or_insert(0) += 1;
        }
        d.plan = None;
    }
    notes.surfaced = runner.stats.has("flush_failed_under_fault") || runner.store.as_ref().is_some_and(|s| s.stats().write_failures > 0);
    notes.indeterminate = runner.poisoned;
    if result.is_ok() {
        // (d) a flush on the healthy device succeeds and makes the current state durable
        let step = case.ops.len();
        trace::mark(&dev, Mark::OpBegin { step, now: runner.model.now });
        trace::mark(&dev, Mark::FlushBegin { step });
        let r = {
            let _g = env::watch("healed flush");
            runner.store.as_ref().unwrap().flush()
        };
        match r {
            Ok(()) => {
                trace::mark(&dev, Mark::FlushOk { step });
                notes.healed_flush_ok = true;
                if CHECK_PARTITION.with(|c| c.get()) {
                    // C05 at the first acknowledged flush after the outage: nothing leaked, nothing
                    // doubly owned, counters exact
                    let snap = runner.store.as_ref().unwrap().verif_snapshot();
                    if let Some((sig, msg)) = crash::partition_problem(&snap) {
                        result = Err((format!("after-outage-{sig}"), format!("at the first acknowledged flush after {} injected I/O failures: {msg}", notes.injected)));
                    }
                }
                let run = snapshot_run(&dev, &hist, runner.model.now);
                if let Err(e) = judge_device(&run, "after the flush on the healed device returned Ok", notes) {
                    result = Err(e);
                }
            }
            Err(e) => {
                trace::mark(&dev, Mark::FlushErr { step });
                let kind = model::classify(&e);
                // a poisoned device answers Indeterminate - or OutOfSpace, when the quarantined
                // allocations of the outage leave no room and the batch fails before any I/O
                if kind == model::ErrKind::Indeterminate || runner.poisoned || (kind == model::ErrKind::OutOfSpace && notes.injected > 0) {
                    // indeterminate failure: the file must be reopened (copy = new inode)
                    notes.indeterminate = true;
                    let run = snapshot_run(&dev, &hist, runner.model.now);
                    if let Err(e) = judge_device(&run, "after an indeterminate failure", notes) {
                        result = Err(e);
                    } else {
                        let (durable, volatile) = trace::split_at(&run.entries, run.entries.len() - 1);
                        let img = trace::build_image(&run.base, &run.entries, &durable, &volatile, &vec![true; volatile.len()], None);
                        let p2 = env::fresh_path("flt-reopen");
                        std::fs::write(&p2, &img).expect("copy");
                        feoxdb::verif::set_thread_clock(Some(runner.model.now));
                        let mut c2 = cfg.clone();
                        c2.plain_io = true;
                        c2.visible_cpus = 2;
                        match seq::open_store(&c2, Some(&p2)) {
                            Err(e) => result = Err(("reopen-after-indeterminate-failed".into(), format!("the file cannot be reopened after an indeterminate failure: {e:?}"))),
                            Ok(s2) => {
                                let _ = s2.insert(b"probe-after-reopen", b"v");
                                let fr = {
                                    let _g = env::watch("flush after reopen");
                                    s2.flush()
                                };
                                if let Err(e) = fr {
                                    result = Err(("flush-fails-after-reopen".into(), format!("after reopening the file following an indeterminate failure flush() still fails: {e:?}")));
                                } else {
                                    notes.reopened_after_indeterminate = true;
                                }
                                env::reap(s2, Some(p2));
                            }
                        }
                    }
                } else {
                    // OutOfSpace can be justified on a full device
                    let snap = runner.store.as_ref().unwrap().verif_snapshot();
                    let (unfit, _) = seq::pending_cannot_fit(&snap);
                    if !(kind == model::ErrKind::OutOfSpace && unfit) {
                        result = Err(("flush-fails-on-healthy-device".into(), format!("the device works again but flush() returned {e:?}")));
                    }
                }
            }
        }
    }
    dev.lock().unwrap().recording = false;
    let (stats, _) = runner.finish();
    *stats_out = stats;
    result
}

pub fn judge_case(fc: &FaultCase, agg: &mut Vec<FaultNotes>) -> Result<(), (String, String)> {
    // dry run: number of I/O calls of the unfaulted workload
    let mut dry = FaultNotes::default();
    let mut st = CaseStats::default();
    run_with_plan(&fc.case, None, 0, &mut dry, &mut st).map_err(|(s, m)| (format!("dry-{s}"), format!("without any fault: {m}")))?;
    let n = dry.io_calls;
    for p in &fc.plans {
        let mut notes = FaultNotes::default();
        let mut st = CaseStats::default();
        let r = run_with_plan(&fc.case, Some(p), n, &mut notes, &mut st);
        agg.push(notes);
        r.map_err(|(s, m)| (s, format!("plan {p:?}: {m}")))?;
    }
    Ok(())
}

pub fn run(tier: Tier, seed: u64, replay: Option<&str>) -> i32 {
    if let Some(path) = replay {
        let doc: serde_json::Value = serde_json::from_str(&std::fs::read_to_string(path).expect("read")).expect("json");
        let fc: FaultCase = serde_json::from_value(doc["case"].clone()).expect("case");
        let mut code = 0;
        for _ in 0..3 {
            if let Err((sig, msg)) = judge_case(&fc, &mut Vec::new()) {
                println!("replay: [{sig}] {msg}");
                code = 1;
                break;
            }
        }
        env::wait_reaper();
        if code == 1 {
            println!("VIOLATION property=C09 replay={path}");
        } else {
            println!("replay: the saved case passes on this tree");
        }
        return code;
    }
    let started = std::time::Instant::now();
    let evaluations = Arc::new(AtomicU64::new(0));
    let images = Arc::new(AtomicU64::new(0));
    let nt = Arc::new(Mutex::new(std::collections::HashSet::<u64>::new()));
    let counters = Arc::new(Mutex::new(BTreeMap::<String, u64>::new()));
    let samples = Arc::new(Mutex::new(Vec::<serde_json::Value>::new()));
    let (e2, i2, n2, c2, s2) = (evaluations.clone(), images.clone(), nt.clone(), counters.clone(), samples.clone());
    let check = move |fc: &FaultCase, counting: bool| -> Result<(), String> {
        let mut agg = Vec::new();
        let r = judge_case(fc, &mut agg);
        if counting {
            let fp = env::fnv(&serde_json::to_vec(fc).unwrap());
            let mut c = c2.lock().unwrap();
            for (i, n) in agg.iter().enumerate() {
                e2.fetch_add(1, Ordering::Relaxed);
                i2.fetch_add(n.images_judged, Ordering::Relaxed);
                if n.injected > 0 {
                    *c.entry("plans_with_fault_consumed".into()).or_insert(0) += 1;
                }
                if n.injected > 0 && n.surfaced {
                    n2.lock().unwrap().insert(fp ^ (i as u64 + 1));
                }
                if n.indeterminate {
                    *c.entry("indeterminate_failures".into()).or_insert(0) += 1;
                }
                if n.reopened_after_indeterminate {
                    *c.entry("reopened_after_indeterminate".into()).or_insert(0) += 1;
                }
                if n.healed_flush_ok {
                    *c.entry("healed_flush_ok".into()).or_insert(0) += 1;
                }
                for (s, v) in &n.sites {
                    *c.entry(format!("site.{s}")).or_insert(0) += v;
                }
            }
            let mut s = s2.lock().unwrap();
            if s.len() < 3 && agg.iter().any(|n| n.injected > 0 && n.surfaced) {
                s.push(json!({"workload": case_summary(&fc.case), "plans": fc.plans.iter().map(|p| format!("{p:?}")).collect::<Vec<_>>()}));
            }
        }
        r.map_err(|(sig, msg)| format!("[{sig}] {msg}"))
    };
    let scale: u32 = std::env::var("FXV_C09_SCALE").ok().and_then(|s| s.parse().ok()).unwrap_or(100);
    let found = run_lanes(case_strat(tier), tier.pick(520, 6000) * scale / 100, 60, seed, env::threads(), check);
    env::wait_reaper();
    let mut ev = Evidence::new(
        "C09",
        tier,
        seed,
        "fault_enumeration",
        "proptest-generated persistent workloads (flushes, sleeps for the periodic flusher, v1/v2/v3, plain pwrite path and io_uring) each re-executed under several generated fault plans: the k-th write/fsync after open (k scaled over the call count of a dry run) fails before or after reaching the device, once / 2 / 3 / 7 times in a row / forever, optionally with a second independent fault. Oracles after every step: call results and reads equal the model (latest accepted values); after every flush (Ok or Err) the durable-only and the as-written image of the device recover in a fresh handle to per-key states no older than the last acknowledged one, so flush Ok implies durability; once the plan is removed a flush must succeed and make everything durable, or - after an IndeterminateWrite - the file copy must reopen and flush. Every call runs under the watchdog. Non-trivial: a plan whose fault was consumed and surfaced as a flush error or a counted write failure. Evaluations = (workload, plan) executions.",
    );
    ev.started = started;
    ev.evaluations = evaluations.load(Ordering::Relaxed);
    ev.nontrivial = nt.lock().unwrap().clone();
    ev.samples = samples.lock().unwrap().clone();
    if ev.samples.is_empty() {
        ev.samples.push(json!("no non-trivial plan in this run"));
    }
    ev.set("images_recovered", json!(images.load(Ordering::Relaxed)));
    ev.set("class_counts", json!(*counters.lock().unwrap()));
    ev.assumptions = vec![
        "a failed fsync gives no guarantee about earlier writes but does not destroy them (no fsyncgate loss); writes that failed before reaching the device are absent".into(),
        "io_uring submissions can only be failed as a whole before submission (FailAfter is mapped to FailBefore there)".into(),
        "reopen after an indeterminate failure is done on a copy (new inode), standing in for a process restart".into(),
    ];
    let mut code = 0;
    if let Some((fc, msg)) = found {
        let sig = msg.strip_prefix('[').and_then(|m| m.split(']').next()).unwrap_or("unknown").to_string();
        let replay = json!({"property": "C09", "signature": sig, "message": msg, "case": serde_json::to_value(&fc).unwrap()});
        if !env::report_violation("C09", &sig, &replay) {
            code = 1;
            ev.violations = 1;
            eprintln!("fxv: C09: {msg}");
        }
        ev.set("failure", json!({"signature": sig, "message": msg}));
    }
    ev.write();
    code
}

/// C05 (clause "nothing leaks", failure paths): generated fault plans that heal - transient,
/// site-filtered (record / marker / journal writes) - over free-form workloads and chains of
/// updates; at the first acknowledged flush after the outage the block partition must be exact.
pub fn healed_partition_campaign(tier: Tier, seed: u64) -> (i32, serde_json::Value) {
    let evaluations = Arc::new(AtomicU64::new(0));
    let healed = Arc::new(AtomicU64::new(0));
    let nt = Arc::new(Mutex::new(std::collections::HashSet::<u64>::new()));
    let (e2, h2, n2) = (evaluations.clone(), healed.clone(), nt.clone());
    let check = move |fc: &FaultCase, counting: bool| -> Result<(), String> {
        let mut agg = Vec::new();
        CHECK_PARTITION.with(|c| c.set(true));
        let r = judge_case(fc, &mut agg);
        CHECK_PARTITION.with(|c| c.set(false));
        if counting {
            let fp = env::fnv(&serde_json::to_vec(fc).unwrap());
            for (i, n) in agg.iter().enumerate() {
                e2.fetch_add(1, Ordering::Relaxed);
                if n.healed_flush_ok && n.injected > 0 {
                    h2.fetch_add(1, Ordering::Relaxed);
                    n2.lock().unwrap().insert(fp ^ (i as u64 + 1));
                }
            }
        }
        match r {
            Err((sig, msg)) if sig.starts_with("after-outage-") => Err(format!("[{sig}] {msg}")),
            // everything else is C09's business
            _ => Ok(()),
        }
    };
    // transient faults only (a poisoned device never reaches an acknowledged flush in this process)
    let transient = |mut fc: FaultCase| {
        for p in &mut fc.plans {
            if p.count == 0 {
                p.count = 3;
            }
            p.second = None;
        }
        fc
    };
    let strat = proptest::strategy::Union::new_weighted(vec![(2, case_strat(tier).prop_map(transient).boxed()), (3, chain_strategy().prop_map(transient).boxed())]).boxed();
    let found = run_lanes(strat, tier.pick(160, 2400), 120, seed ^ 0xC05F, env::threads(), check);
    env::wait_reaper();
    let mut code = 0;
    let mut failure = serde_json::Value::Null;
    if let Some((fc, msg)) = found {
        let sig = msg.strip_prefix('[').and_then(|m| m.split(']').next()).unwrap_or("after-outage").to_string();
        let replay = json!({"property": "C05", "engine": "fault_partition", "signature": sig, "message": msg, "case": serde_json::to_value(&fc).unwrap()});
        if !env::report_violation("C05", &sig, &replay) {
            code = 1;
            eprintln!("fxv: C05 (after an outage): {msg}");
        }
        failure = json!({"signature": sig, "message": msg});
    }
    let summary = json!({
        "plans": evaluations.load(Ordering::Relaxed),
        "acknowledged_flushes_after_an_outage": healed.load(Ordering::Relaxed),
        "distinct_nontrivial": nt.lock().unwrap().len(),
        "rule": "the fault-plan workloads of C09 (free-form workloads and chains of updates on 1-8 workers) under transient failures - any call, data-area / record / marker / journal writes, fsyncs, 1-9 failing calls; after the device works again the first acknowledged flush is a quiescent point: the snapshot must partition the data area exactly (no block leaked by a failed batch's clean-up, none doubly owned, usage counter equal to the live blocks). Non-trivial: a (workload, plan) run in which a fault was consumed and the flush on the healed device was acknowledged.",
        "failure": failure,
    });
    (code, summary)
}

pub fn replay_healed_partition(path: &str) -> i32 {
    let doc: serde_json::Value = serde_json::from_str(&std::fs::read_to_string(path).expect("read")).expect("json");
    let fc: FaultCase = serde_json::from_value(doc["case"].clone()).expect("case");
    let mut code = 0;
    for _ in 0..3 {
        CHECK_PARTITION.with(|c| c.set(true));
        let r = judge_case(&fc, &mut Vec::new());
        CHECK_PARTITION.with(|c| c.set(false));
        if let Err((sig, msg)) = r {
            if sig.starts_with("after-outage-") {
                println!("replay: [{sig}] {msg}");
                code = 1;
                break;
            }
        }
    }
    env::wait_reaper();
    if code == 1 {
        println!("VIOLATION property=C05 replay={path}");
    } else {
        println!("replay: the partition is exact after the outage on this tree");
    }
    code
}

//! Multi-threaded proptest driver for engine-A style properties: one TestRunner per lane,
//! deterministic seeds derived from VERIF_SEED, shrinking, replay files, evidence.

use std::collections::BTreeMap;
use std::sync::atomic::{AtomicBool, AtomicU64, Ordering};
use std::sync::{Arc, Mutex};

use proptest::strategy::BoxedStrategy;
use proptest::test_runner::{Config as PtConfig, RngAlgorithm, TestCaseError, TestError, TestRng, TestRunner};
use serde_json::{json, Value};

use crate::env::{self, Evidence, Tier};
use crate::ops::Case;
use crate::seq::{self, CaseStats, Failure, Flags};

pub fn pt_config(cases: u32, shrink_iters: u32) -> PtConfig {
    PtConfig {
        cases,
        failure_persistence: None,
        max_shrink_iters: shrink_iters,
        max_global_rejects: 1_000_000,
        ..PtConfig::default()
    }
}

pub fn new_runner(cases: u32, shrink_iters: u32, seed: u64, lane: u64) -> TestRunner {
    TestRunner::new_with_rng(pt_config(cases, shrink_iters), TestRng::from_seed(RngAlgorithm::ChaCha, &env::proptest_seed(seed, lane)))
}


/// Generic parallel property run: `check` returns Err(message) on an oracle failure.
/// Returns the first (shrunk) failing value, if any.
pub fn run_lanes<T, F>(strategy: BoxedStrategy<T>, total_cases: u32, shrink_iters: u32, seed: u64, lanes: usize, check: F) -> Option<(T, String)>
where
    T: Clone + std::fmt::Debug + Send + 'static,
    F: Fn(&T, bool) -> Result<(), String> + Send + Sync + 'static,
{
    let stop = Arc::new(AtomicBool::new(false));
    let check = Arc::new(check);
    let per_lane = total_cases.div_ceil(lanes as u32).max(1);
    let found: Arc<Mutex<Option<(T, String)>>> = Arc::new(Mutex::new(None));
    let mut handles = Vec::new();
    // strategies are not Send; rebuild per lane through a shared constructor is not possible
    // for boxed strategies, so lanes are run on scoped threads sharing &strategy.
    let strategy = Arc::new(SendStrategy(strategy));
    for lane in 0..lanes {
        let stop = stop.clone();
        let check = check.clone();
        let found = found.clone();
        let strategy = strategy.clone();
        handles.push(std::thread::Builder::new().stack_size(16 << 20).spawn(move || {
            let mut runner = new_runner(per_lane, shrink_iters, seed, lane as u64);
            let failed_here = AtomicBool::new(false);
            let result = runner.run(&strategy.0, |value| {
                if stop.load(Ordering::Acquire) && !failed_here.load(Ordering::Acquire) {
                    return Ok(());
                }
                let counting = !failed_here.load(Ordering::Acquire);
                match check(&value, counting) {
                    Ok(()) => Ok(()),
                    Err(msg) => {
                        failed_here.store(true, Ordering::Release);
                        stop.store(true, Ordering::Release);
                        Err(TestCaseError::fail(msg))
                    }
                }
            });
            match result {
                Ok(()) => {}
                Err(TestError::Fail(reason, value)) => {
                    let mut f = found.lock().unwrap();
                    if f.is_none() {
                        *f = Some((value, reason.message().to_string()));
                    }
                }
                Err(TestError::Abort(reason)) => {
                    eprintln!("fxv: proptest lane {lane} aborted: {reason}");
                }
            }
        }).unwrap());
    }
    for h in handles {
        let _ = h.join();
    }
    let r = found.lock().unwrap().take();
    r
}

struct SendStrategy<T>(BoxedStrategy<T>);
// BoxedStrategy is an Arc<dyn Strategy>; the strategies built in ops.rs hold only plain data.
unsafe impl<T> Send for SendStrategy<T> {}
unsafe impl<T> Sync for SendStrategy<T> {}

// ------------------------------------------------------------------------------------------
// engine-A campaigns
// ------------------------------------------------------------------------------------------

pub struct SeqCampaign {
    pub property: &'static str,
    pub level: &'static str,
    pub strategy: BoxedStrategy<Case>,
    pub flags: Flags,
    /// oracle tags whose failures are violations of this property
    pub owned: Vec<&'static str>,
    pub cases: u32,
    pub shrink_iters: u32,
    pub nontrivial: fn(&CaseStats) -> bool,
    pub rule: String,
    pub assumptions: Vec<String>,
    /// optional second execution per case (e.g. cache on/off differential); returns Err(msg)
    pub extra: Option<fn(&Case, &seq::RunOutput) -> Result<(), Failure>>,
}

pub struct Totals {
    pub evaluations: AtomicU64,
    pub foreign: AtomicU64,
    pub counters: Mutex<BTreeMap<String, u64>>,
    pub nontrivial: Mutex<std::collections::HashSet<u64>>,
    pub samples: Mutex<Vec<Value>>,
    pub configs: Mutex<BTreeMap<String, u64>>,
}

pub fn case_summary(case: &Case) -> Value {
    json!({
        "config": serde_json::to_value(&case.cfg).unwrap(),
        "keys": case.keys.iter().map(|k| crate::model::short(k)).collect::<Vec<_>>(),
        "ops": case.ops.iter().map(|o| format!("{o:?}")).collect::<Vec<_>>(),
    })
}

pub fn config_label(c: &crate::ops::Config) -> String {
    if c.persistent {
        format!("persistent/v{}/cache={}/ttl={}", c.version, c.cache, c.ttl)
    } else {
        format!("memory/ttl={}", c.ttl)
    }
}

pub fn run_seq_campaign(c: SeqCampaign, tier: Tier, seed: u64) -> i32 {
    let started = std::time::Instant::now();
    let totals = Arc::new(Totals {
        evaluations: AtomicU64::new(0),
        foreign: AtomicU64::new(0),
        counters: Mutex::new(BTreeMap::new()),
        nontrivial: Mutex::new(Default::default()),
        samples: Mutex::new(Vec::new()),
        configs: Mutex::new(BTreeMap::new()),
    });
    let flags = c.flags.clone();
    let owned = c.owned.clone();
    let nontrivial = c.nontrivial;
    let extra = c.extra;
    let t2 = totals.clone();
    let property = c.property;
    let check = move |case: &Case, counting: bool| -> Result<(), String> {
        let out = seq::run_case(case, &flags);
        let mut failure = out.failure.clone();
        if failure.is_none() {
            if let Some(extra) = extra {
                if let Err(f) = extra(case, &out) {
                    failure = Some(f);
                }
            }
        }
        if counting {
            t2.evaluations.fetch_add(1, Ordering::Relaxed);
            out.stats.merge_into(&mut t2.counters.lock().unwrap());
            *t2.configs.lock().unwrap().entry(config_label(&case.cfg)).or_insert(0) += 1;
            if nontrivial(&out.stats) {
                let fp = env::fnv(&serde_json::to_vec(case).unwrap());
                let mut nt = t2.nontrivial.lock().unwrap();
                if nt.insert(fp) {
                    let mut s = t2.samples.lock().unwrap();
                    if s.len() < 3 {
                        s.push(case_summary(case));
                    }
                }
            }
        }
        match failure {
            Some(f) if f.owned_by(&owned) => Err(format!("[{}/{}] step {}: {}", f.oracle, f.signature, f.step, f.msg)),
            Some(f) => {
                if counting {
                    t2.foreign.fetch_add(1, Ordering::Relaxed);
                    if std::env::var("FXV_DEBUG_FOREIGN").is_ok() {
                        eprintln!("foreign failure [{}/{}] step {}: {}\n  case: {}", f.oracle, f.signature, f.step, f.msg, serde_json::to_string(case).unwrap());
                    }
                }
                Ok(())
            }
            None => Ok(()),
        }
    };
    let found = run_lanes(c.strategy, c.cases, c.shrink_iters, seed, env::threads(), check);
    env::wait_reaper();

    let mut ev = Evidence::new(property, tier, seed, c.level, &c.rule);
    ev.started = started;
    ev.evaluations = totals.evaluations.load(Ordering::Relaxed);
    ev.nontrivial = totals.nontrivial.lock().unwrap().clone();
    ev.samples = totals.samples.lock().unwrap().clone();
    if ev.samples.is_empty() {
        ev.samples.push(json!("no non-trivial case was generated in this run"));
    }
    ev.assumptions = c.assumptions.clone();
    ev.set("class_counts", json!(*totals.counters.lock().unwrap()));
    ev.set("configurations", json!(*totals.configs.lock().unwrap()));
    ev.set("cases_stopped_by_other_oracles", json!(totals.foreign.load(Ordering::Relaxed)));
    ev.set("lanes", json!(env::threads()));
    let mut code = 0;
    // listed known findings that were met and excluded by construction
    let mut excluded = serde_json::Map::new();
    for (k, v) in totals.counters.lock().unwrap().iter() {
        if let Some(sig) = k.strip_prefix("ev.known.") {
            if let Some(what) = env::known_what(property, sig) {
                println!("KNOWN-FINDING: property={property} {what}");
            }
            excluded.insert(sig.to_string(), json!(v));
        }
    }
    ev.set("known_findings_excluded_by_construction", Value::Object(excluded));
    if let Some((case, msg)) = found {
        // re-run the shrunk case once to get its own failure record
        let out = seq::run_case(&case, &c.flags);
        env::wait_reaper();
        let f = out.failure.clone().filter(|f| f.owned_by(&c.owned));
        let (oracle, signature, message) = match &f {
            Some(f) => (f.oracle.to_string(), f.signature.clone(), f.msg.clone()),
            None => ("unknown".to_string(), signature_from_msg(&msg), msg.clone()),
        };
        let replay = json!({
            "property": property,
            "engine": "seq",
            "oracle": oracle,
            "signature": signature,
            "message": message,
            "first_message": msg,
            "case": serde_json::to_value(&case).unwrap(),
        });
        let known = env::report_violation(property, &signature, &replay);
        if !known {
            ev.violations = 1;
            code = 1;
            eprintln!("fxv: {property}: {message}");
        }
        ev.set("failure", json!({"signature": signature, "message": message, "known_finding": known}));
    }
    ev.write();
    code
}

fn signature_from_msg(msg: &str) -> String {
    // "[oracle/signature] step ..."
    msg.strip_prefix('[')
        .and_then(|m| m.split(']').next())
        .and_then(|m| m.split('/').nth(1))
        .unwrap_or("unknown")
        .to_string()
}

/// Re-execute a saved engine-A replay file, bypassing proptest.
pub fn replay_seq(path: &str, flags: &Flags, owned: &[&str]) -> i32 {
    let text = std::fs::read_to_string(path).expect("read replay");
    let doc: Value = serde_json::from_str(&text).expect("parse replay");
    let case: Case = serde_json::from_value(doc["case"].clone()).expect("case");
    let property = doc["property"].as_str().unwrap_or("?").to_string();
    let out = seq::run_case(&case, flags);
    env::wait_reaper();
    match out.failure {
        Some(f) if f.owned_by(owned) => {
            println!("replay: [{}/{}] step {}: {}", f.oracle, f.signature, f.step, f.msg);
            println!("VIOLATION property={property} replay={path}");
            1
        }
        Some(f) => {
            println!("replay: stopped by another oracle [{}] {}", f.oracle, f.msg);
            0
        }
        None => {
            println!("replay: the saved case passes on this tree");
            0
        }
    }
}

//! Reference last-writer-wins model (DESIGN.md §4.2, Appendix A). No feoxdb code is used here
//! except the error enum for classification and `size_of::<Record>()` (the documented fixed
//! per-record overhead).

use std::collections::BTreeMap;
use std::sync::Arc;

use feoxdb::FeoxError;
use serde::{Deserialize, Serialize};

pub const MAX_KEY: usize = 100 * 1024;
pub const MAX_VALUE: usize = 4 * 1024 * 1024;
pub const NS: u64 = 1_000_000_000;

#[derive(Clone, Debug, PartialEq, Eq, Serialize, Deserialize)]
pub enum ErrKind {
    InvalidKeySize,
    InvalidValueSize,
    KeyNotFound,
    OlderTimestamp,
    OutOfMemory,
    TtlNotEnabled,
    Unsupported,
    InvalidOperation,
    JsonPatch,
    OutOfSpace,
    StaleExtent,
    Io,
    Indeterminate,
    Other(String),
}

pub fn classify(e: &FeoxError) -> ErrKind {
    match e {
        FeoxError::InvalidKeySize => ErrKind::InvalidKeySize,
        FeoxError::InvalidValueSize => ErrKind::InvalidValueSize,
        FeoxError::KeyNotFound => ErrKind::KeyNotFound,
        FeoxError::OlderTimestamp => ErrKind::OlderTimestamp,
        FeoxError::OutOfMemory => ErrKind::OutOfMemory,
        FeoxError::TtlNotEnabled => ErrKind::TtlNotEnabled,
        FeoxError::Unsupported => ErrKind::Unsupported,
        FeoxError::InvalidOperation => ErrKind::InvalidOperation,
        FeoxError::JsonPatchError(_) => ErrKind::JsonPatch,
        FeoxError::OutOfSpace => ErrKind::OutOfSpace,
        FeoxError::StaleExtent => ErrKind::StaleExtent,
        FeoxError::IoError(_) => ErrKind::Io,
        FeoxError::IndeterminateWrite(_) => ErrKind::Indeterminate,
        other => ErrKind::Other(format!("{other:?}")),
    }
}

#[derive(Clone, Debug, PartialEq, Eq, Serialize, Deserialize)]
pub enum Res {
    Unit,
    Bool(bool),
    Bytes(Vec<u8>),
    Size(usize),
    I64(i64),
    OptU64(Option<u64>),
    Pairs(Vec<(Vec<u8>, Vec<u8>)>),
    Err(ErrKind),
}

impl Res {
    pub fn brief(&self) -> String {
        match self {
            Res::Bytes(b) => format!("Bytes(len={}, head={:?})", b.len(), &b[..b.len().min(12)]),
            Res::Pairs(p) => format!(
                "Pairs({:?})",
                p.iter().map(|(k, v)| (short(k), v.len())).collect::<Vec<_>>()
            ),
            other => format!("{other:?}"),
        }
    }
}

pub fn short(k: &[u8]) -> String {
    if k.len() <= 16 {
        format!("{:?}", String::from_utf8_lossy(k))
    } else {
        format!("<{}B {:?}..>", k.len(), String::from_utf8_lossy(&k[..6]))
    }
}

#[derive(Clone, Debug, PartialEq, Eq)]
pub struct Gen {
    pub value: Arc<Vec<u8>>,
    pub ts: u64,
    pub expiry: u64,
    /// value produced by a JSON patch: compared as parsed JSON
    pub json_derived: bool,
}

#[derive(Clone, Debug)]
pub enum Call {
    Insert { key: Vec<u8>, value: Arc<Vec<u8>>, ts: Option<u64>, bytes: bool },
    InsertTtl { key: Vec<u8>, value: Arc<Vec<u8>>, ttl: u64, ts: Option<u64>, bytes: bool },
    Get { key: Vec<u8>, bytes: bool },
    GetSize { key: Vec<u8> },
    Contains { key: Vec<u8> },
    Delete { key: Vec<u8>, ts: Option<u64> },
    Cas { key: Vec<u8>, expected: Arc<Vec<u8>>, value: Arc<Vec<u8>>, ts: Option<u64>, ttl: Option<u64> },
    Incr { key: Vec<u8>, delta: i64, ts: Option<u64>, ttl: Option<u64> },
    InsertIfAbsent { key: Vec<u8>, value: Arc<Vec<u8>> },
    JsonPatch { key: Vec<u8>, patch: Vec<u8>, ts: Option<u64> },
    UpdateTtl { key: Vec<u8>, ttl: u64 },
    Persist { key: Vec<u8> },
    GetTtl { key: Vec<u8> },
    Range { start: Vec<u8>, end: Vec<u8>, limit: usize },
}

impl Call {
    pub fn key(&self) -> Option<&[u8]> {
        match self {
            Call::Insert { key, .. }
            | Call::InsertTtl { key, .. }
            | Call::Get { key, .. }
            | Call::GetSize { key }
            | Call::Contains { key }
            | Call::Delete { key, .. }
            | Call::Cas { key, .. }
            | Call::Incr { key, .. }
            | Call::InsertIfAbsent { key, .. }
            | Call::JsonPatch { key, .. }
            | Call::UpdateTtl { key, .. }
            | Call::Persist { key }
            | Call::GetTtl { key } => Some(key),
            Call::Range { .. } => None,
        }
    }
    pub fn brief(&self) -> String {
        match self {
            Call::Insert { key, value, ts, bytes } => format!("insert{}({}, {}B, ts={ts:?})", if *bytes { "_bytes" } else { "" }, short(key), value.len()),
            Call::InsertTtl { key, value, ttl, ts, bytes } => format!("insert{}_with_ttl({}, {}B, ttl={ttl}, ts={ts:?})", if *bytes { "_bytes" } else { "" }, short(key), value.len()),
            Call::Get { key, bytes } => format!("get{}({})", if *bytes { "_bytes" } else { "" }, short(key)),
            Call::GetSize { key } => format!("get_size({})", short(key)),
            Call::Contains { key } => format!("contains_key({})", short(key)),
            Call::Delete { key, ts } => format!("delete({}, ts={ts:?})", short(key)),
            Call::Cas { key, expected, value, ts, ttl } => format!("cas({}, expect {}B, new {}B, ts={ts:?}, ttl={ttl:?})", short(key), expected.len(), value.len()),
            Call::Incr { key, delta, ts, ttl } => format!("incr({}, {delta}, ts={ts:?}, ttl={ttl:?})", short(key)),
            Call::InsertIfAbsent { key, value } => format!("insert_if_absent({}, {}B)", short(key), value.len()),
            Call::JsonPatch { key, patch, ts } => format!("json_patch({}, {}, ts={ts:?})", short(key), String::from_utf8_lossy(&patch[..patch.len().min(60)])),
            Call::UpdateTtl { key, ttl } => format!("update_ttl({}, {ttl})", short(key)),
            Call::Persist { key } => format!("persist({})", short(key)),
            Call::GetTtl { key } => format!("get_ttl({})", short(key)),
            Call::Range { start, end, limit } => format!("range({}, {}, {limit})", short(start), short(end)),
        }
    }
}

#[derive(Clone, Debug)]
pub struct Model {
    pub persistent: bool,
    pub version: u32,
    pub ttl: bool,
    pub max_memory: Option<usize>,
    pub rec_overhead: usize,
    pub now: u64,
    pub map: BTreeMap<Vec<u8>, Gen>,
    /// TTL-carrying CAS / increment on a TTL-disabled store must be refused (see DESIGN §6.3)
    pub ttl_atomic_requires_ttl: bool,
}

#[derive(Clone, Debug, Default)]
pub struct Effects {
    /// explicit timestamps (≠ u64::MAX) the store's clock legitimately observed in this call
    pub observed_ts: Vec<u64>,
    /// the call assigned an automatic timestamp to this key's new generation
    pub auto_assigned: Option<u64>,
    /// previous timestamp of the key when a new generation was accepted
    pub prev_ts: Option<u64>,
    /// the call was accepted as a modification
    pub modified: bool,
    /// an expired generation was lazily retired
    pub lazily_retired: bool,
}

pub struct Outcome {
    pub admissible: Vec<Res>,
    pub effects: Effects,
}

fn is_auto(ts: Option<u64>) -> bool {
    matches!(ts, None | Some(0))
}

pub fn ttl_expiry(base: u64, ttl: u64) -> u64 {
    if ttl == 0 {
        0
    } else {
        base.saturating_add(ttl.saturating_mul(NS))
    }
}

impl Model {
    pub fn max_recoverable_key(&self) -> usize {
        // one block minus the fixed record header of the format (v1: 22 bytes, v2/v3: 30 bytes)
        if self.version == 1 {
            4096 - 22
        } else {
            4096 - 30
        }
    }
    fn key_err_basic(&self, key: &[u8]) -> bool {
        key.is_empty() || key.len() > MAX_KEY
    }
    fn key_err_new(&self, key: &[u8]) -> bool {
        self.key_err_basic(key) || (self.persistent && key.len() > self.max_recoverable_key())
    }
    fn value_err(&self, v: &[u8]) -> bool {
        v.is_empty() || v.len() > MAX_VALUE
    }
    pub fn expired(&self, g: &Gen) -> bool {
        self.ttl && g.expiry > 0 && self.now > g.expiry
    }
    pub fn live(&self, key: &[u8]) -> Option<&Gen> {
        self.map.get(key).filter(|g| !self.expired(g))
    }
    pub fn size_of(&self, klen: usize, vlen: usize) -> usize {
        self.rec_overhead + klen + vlen
    }
    pub fn memory_usage(&self) -> usize {
        self.map.iter().map(|(k, g)| self.size_of(k.len(), g.value.len())).sum()
    }
    /// memory of the generations that are not expired-present (lower bound for the counters)
    pub fn memory_usage_live(&self) -> usize {
        self.map
            .iter()
            .filter(|(_, g)| !self.expired(g))
            .map(|(k, g)| self.size_of(k.len(), g.value.len()))
            .sum()
    }
    pub fn live_count(&self) -> usize {
        self.map.values().filter(|g| !self.expired(g)).count()
    }
    fn oom(&self, klen: usize, new_vlen: usize, old_vlen: Option<usize>) -> bool {
        let Some(limit) = self.max_memory else { return false };
        let new = self.size_of(klen, new_vlen);
        let old = old_vlen.map_or(0, |v| self.size_of(klen, v));
        let growth = new.saturating_sub(old);
        growth != 0 && self.memory_usage() + growth > limit
    }

    pub fn range(&self, start: &[u8], end: &[u8], limit: usize) -> Vec<(Vec<u8>, Vec<u8>)> {
        if limit == 0 || start > end {
            return Vec::new();
        }
        self.map
            .range(start.to_vec()..=end.to_vec())
            .filter(|(_, g)| !self.expired(g))
            .take(limit)
            .map(|(k, g)| (k.clone(), g.value.as_ref().clone()))
            .collect()
    }

    fn err(kinds: Vec<ErrKind>) -> Outcome {
        Outcome { admissible: kinds.into_iter().map(Res::Err).collect(), effects: Effects::default() }
    }
    fn one(res: Res) -> Outcome {
        Outcome { admissible: vec![res], effects: Effects::default() }
    }

    /// Apply `call`. `observed` is the timestamp the store shows for the key after the call
    /// (used only when the call is accepted with an automatic timestamp).
    pub fn apply(&mut self, call: &Call, observed: Option<u64>) -> Outcome {
        match call {
            Call::Insert { key, value, ts, .. } => self.insert(key, value, *ts, 0, observed, false),
            Call::InsertTtl { key, value, ttl, ts, .. } => self.insert(key, value, *ts, *ttl, observed, true),
            Call::Get { key, .. } => {
                if self.key_err_basic(key) {
                    return Self::err(vec![ErrKind::InvalidKeySize]);
                }
                match self.live(key) {
                    Some(g) => Self::one(Res::Bytes(g.value.as_ref().clone())),
                    None => Self::err(vec![ErrKind::KeyNotFound]),
                }
            }
            Call::GetSize { key } => {
                if self.key_err_basic(key) {
                    return Self::err(vec![ErrKind::InvalidKeySize]);
                }
                match self.map.get(key) {
                    Some(g) => Self::one(Res::Size(g.value.len())),
                    None => Self::err(vec![ErrKind::KeyNotFound]),
                }
            }
            Call::Contains { key } => Self::one(Res::Bool(self.map.contains_key(key))),
            Call::Delete { key, ts } => {
                if self.key_err_basic(key) {
                    return Self::err(vec![ErrKind::InvalidKeySize]);
                }
                let Some(cur) = self.map.get(key) else {
                    return Self::err(vec![ErrKind::KeyNotFound]);
                };
                if let Some(t) = ts.filter(|t| *t != 0) {
                    if t <= cur.ts {
                        return Self::err(vec![ErrKind::OlderTimestamp]);
                    }
                } else if cur.ts == u64::MAX {
                    return Self::err(vec![ErrKind::OlderTimestamp]);
                }
                let prev = cur.ts;
                self.map.remove(key);
                let mut effects = Effects { modified: true, prev_ts: Some(prev), ..Effects::default() };
                if let Some(t) = ts.filter(|t| *t != 0 && *t != u64::MAX) {
                    effects.observed_ts.push(t);
                }
                Outcome { admissible: vec![Res::Unit], effects }
            }
            Call::Cas { key, expected, value, ts, ttl } => self.cas(key, expected, value, *ts, *ttl, observed),
            Call::Incr { key, delta, ts, ttl } => self.incr(key, *delta, *ts, *ttl, observed),
            Call::InsertIfAbsent { key, value } => {
                let mut errs = Vec::new();
                if self.key_err_new(key) {
                    errs.push(ErrKind::InvalidKeySize);
                }
                if self.value_err(value) {
                    errs.push(ErrKind::InvalidValueSize);
                }
                if !errs.is_empty() {
                    return Self::err(errs);
                }
                if self.map.contains_key(key) {
                    return Self::one(Res::Bool(false));
                }
                if self.oom(key.len(), value.len(), None) {
                    return Self::err(vec![ErrKind::OutOfMemory]);
                }
                let Some(ts) = observed else {
                    return Self::one(Res::Err(ErrKind::Other("model: accepted write left no record".into())));
                };
                self.map.insert(key.clone(), Gen { value: value.clone(), ts, expiry: 0, json_derived: false });
                Outcome {
                    admissible: vec![Res::Bool(true)],
                    effects: Effects { auto_assigned: Some(ts), modified: true, ..Effects::default() },
                }
            }
            Call::JsonPatch { key, patch, ts } => self.json_patch(key, patch, *ts, observed),
            Call::UpdateTtl { key, ttl } => self.update_ttl(key, *ttl, observed, false),
            Call::Persist { key } => self.update_ttl(key, 0, observed, true),
            Call::GetTtl { key } => {
                let mut errs = Vec::new();
                if !self.ttl {
                    errs.push(ErrKind::TtlNotEnabled);
                }
                if self.key_err_basic(key) {
                    errs.push(ErrKind::InvalidKeySize);
                }
                if !errs.is_empty() {
                    return Self::err(errs);
                }
                match self.map.get(key) {
                    None => Self::err(vec![ErrKind::KeyNotFound]),
                    Some(g) if g.expiry == 0 => Self::one(Res::OptU64(None)),
                    Some(g) if self.now >= g.expiry => Self::one(Res::OptU64(Some(0))),
                    Some(g) => Self::one(Res::OptU64(Some((g.expiry - self.now) / NS))),
                }
            }
            Call::Range { start, end, limit } => {
                if start.len() > MAX_KEY || end.len() > MAX_KEY {
                    return Self::err(vec![ErrKind::InvalidKeySize]);
                }
                Self::one(Res::Pairs(self.range(start, end, *limit)))
            }
        }
    }

    fn resolve_ts(ts: Option<u64>, observed: Option<u64>) -> Result<(u64, bool), Outcome> {
        if is_auto(ts) {
            match observed {
                Some(t) => Ok((t, true)),
                None => Err(Self::one(Res::Err(ErrKind::Other("model: accepted write left no record".into())))),
            }
        } else {
            Ok((ts.unwrap(), false))
        }
    }

    fn accept_effects(ts: u64, auto: bool, prev: Option<u64>) -> Effects {
        let mut e = Effects { modified: true, prev_ts: prev, ..Effects::default() };
        if auto {
            e.auto_assigned = Some(ts);
        } else if ts != u64::MAX {
            e.observed_ts.push(ts);
        }
        e
    }

    fn insert(&mut self, key: &[u8], value: &Arc<Vec<u8>>, ts: Option<u64>, ttl: u64, observed: Option<u64>, ttl_api: bool) -> Outcome {
        let mut errs = Vec::new();
        if ttl_api {
            if !self.ttl {
                errs.push(ErrKind::TtlNotEnabled);
            }
            if self.persistent && self.version == 1 {
                errs.push(ErrKind::Unsupported);
            }
        }
        if self.key_err_new(key) {
            errs.push(ErrKind::InvalidKeySize);
        }
        if self.value_err(value) {
            errs.push(ErrKind::InvalidValueSize);
        }
        if !errs.is_empty() {
            return Self::err(errs);
        }
        let cur = self.map.get(key).cloned();
        if let Some(cur) = &cur {
            if let Some(t) = ts.filter(|t| *t != 0) {
                if t <= cur.ts {
                    return Self::err(vec![ErrKind::OlderTimestamp]);
                }
            } else if cur.ts == u64::MAX {
                return Self::err(vec![ErrKind::OlderTimestamp]);
            }
        }
        if self.oom(key.len(), value.len(), cur.as_ref().map(|c| c.value.len())) {
            return Self::err(vec![ErrKind::OutOfMemory]);
        }
        let (t, auto) = match Self::resolve_ts(ts, observed) {
            Ok(x) => x,
            Err(o) => return o,
        };
        let expiry = if ttl > 0 && self.ttl { ttl_expiry(t, ttl) } else { 0 };
        self.map.insert(key.to_vec(), Gen { value: value.clone(), ts: t, expiry, json_derived: false });
        Outcome {
            admissible: vec![Res::Bool(cur.is_none())],
            effects: Self::accept_effects(t, auto, cur.map(|c| c.ts)),
        }
    }

    fn ttl_atomic_errs(&self, ttl: Option<u64>) -> Vec<ErrKind> {
        let mut errs = Vec::new();
        if ttl.is_some_and(|t| t > 0) {
            if self.persistent && self.version == 1 {
                errs.push(ErrKind::Unsupported);
            }
            if self.ttl_atomic_requires_ttl && !self.ttl {
                errs.push(ErrKind::TtlNotEnabled);
            }
        }
        errs
    }

    fn cas(&mut self, key: &[u8], expected: &Arc<Vec<u8>>, value: &Arc<Vec<u8>>, ts: Option<u64>, ttl: Option<u64>, observed: Option<u64>) -> Outcome {
        let mut errs = self.ttl_atomic_errs(ttl);
        if self.key_err_new(key) {
            errs.push(ErrKind::InvalidKeySize);
        }
        if self.value_err(value) {
            errs.push(ErrKind::InvalidValueSize);
        }
        if !errs.is_empty() {
            return Self::err(errs);
        }
        let Some(cur) = self.map.get(key).cloned() else {
            return Self::one(Res::Bool(false));
        };
        if self.expired(&cur) {
            return Self::one(Res::Bool(false));
        }
        if cur.value.as_ref() != expected.as_ref() {
            return Self::one(Res::Bool(false));
        }
        if let Some(t) = ts.filter(|t| *t != 0) {
            if t <= cur.ts {
                return Self::err(vec![ErrKind::OlderTimestamp]);
            }
        } else if cur.ts == u64::MAX {
            return Self::err(vec![ErrKind::OlderTimestamp]);
        }
        if self.oom(key.len(), value.len(), Some(cur.value.len())) {
            return Self::err(vec![ErrKind::OutOfMemory]);
        }
        let (t, auto) = match Self::resolve_ts(ts, observed) {
            Ok(x) => x,
            Err(o) => return o,
        };
        let expiry = ttl_expiry(t, ttl.unwrap_or(0));
        self.map.insert(key.to_vec(), Gen { value: value.clone(), ts: t, expiry, json_derived: false });
        Outcome { admissible: vec![Res::Bool(true)], effects: Self::accept_effects(t, auto, Some(cur.ts)) }
    }

    fn incr(&mut self, key: &[u8], delta: i64, ts: Option<u64>, ttl: Option<u64>, observed: Option<u64>) -> Outcome {
        let mut errs = self.ttl_atomic_errs(ttl);
        if self.key_err_new(key) {
            errs.push(ErrKind::InvalidKeySize);
        }
        if !errs.is_empty() {
            return Self::err(errs);
        }
        let explicit = ts.filter(|t| *t != 0);
        let mut lazily_retired = false;
        let mut retired_at = 0u64;
        let mut observed_extra = Vec::new();
        if let Some(cur) = self.map.get(key).cloned() {
            if let Some(t) = explicit {
                if t <= cur.ts {
                    return Self::err(vec![ErrKind::OlderTimestamp]);
                }
            }
            if self.expired(&cur) {
                // lazily retired: acts as a delete at `now`
                self.map.remove(key);
                lazily_retired = true;
                retired_at = self.now;
                observed_extra.push(self.now);
            } else {
                if cur.value.len() != 8 {
                    return Self::err(vec![ErrKind::InvalidOperation]);
                }
                if explicit.is_none() && cur.ts == u64::MAX {
                    return Self::err(vec![ErrKind::OlderTimestamp]);
                }
                if self.oom(key.len(), 8, Some(8)) {
                    return Self::err(vec![ErrKind::OutOfMemory]);
                }
                let (t, auto) = match Self::resolve_ts(ts, observed) {
                    Ok(x) => x,
                    Err(o) => return o,
                };
                let curv = i64::from_le_bytes(cur.value.as_slice().try_into().unwrap());
                let newv = curv.saturating_add(delta);
                let expiry = ttl_expiry(t, ttl.unwrap_or(0));
                self.map.insert(
                    key.to_vec(),
                    Gen { value: Arc::new(newv.to_le_bytes().to_vec()), ts: t, expiry, json_derived: false },
                );
                return Outcome { admissible: vec![Res::I64(newv)], effects: Self::accept_effects(t, auto, Some(cur.ts)) };
            }
        }
        // absent (or just retired)
        if let Some(t) = explicit {
            if t <= retired_at {
                let mut o = Self::err(vec![ErrKind::OlderTimestamp]);
                o.effects.lazily_retired = lazily_retired;
                o.effects.observed_ts = observed_extra;
                return o;
            }
        }
        if self.oom(key.len(), 8, None) {
            let mut o = Self::err(vec![ErrKind::OutOfMemory]);
            o.effects.lazily_retired = lazily_retired;
            o.effects.observed_ts = observed_extra;
            return o;
        }
        let (t, auto) = match Self::resolve_ts(ts, observed) {
            Ok(x) => x,
            Err(o) => return o,
        };
        let expiry = ttl_expiry(t, ttl.unwrap_or(0));
        self.map.insert(
            key.to_vec(),
            Gen { value: Arc::new(delta.to_le_bytes().to_vec()), ts: t, expiry, json_derived: false },
        );
        let mut effects = Self::accept_effects(t, auto, None);
        effects.lazily_retired = lazily_retired;
        effects.observed_ts.extend(observed_extra);
        Outcome { admissible: vec![Res::I64(delta)], effects }
    }

    fn json_patch(&mut self, key: &[u8], patch: &[u8], ts: Option<u64>, observed: Option<u64>) -> Outcome {
        if self.key_err_basic(key) {
            return Self::err(vec![ErrKind::InvalidKeySize]);
        }
        let Some(cur) = self.map.get(key).cloned() else {
            return Self::err(vec![ErrKind::KeyNotFound]);
        };
        if let Some(t) = ts.filter(|t| *t != 0) {
            if t <= cur.ts {
                return Self::err(vec![ErrKind::OlderTimestamp]);
            }
        } else if cur.ts == u64::MAX {
            return Self::err(vec![ErrKind::OlderTimestamp]);
        }
        if self.expired(&cur) {
            return Self::err(vec![ErrKind::KeyNotFound]);
        }
        let new_value = match apply_patch(&cur.value, patch) {
            Ok(v) => v,
            Err(()) => return Self::err(vec![ErrKind::JsonPatch]),
        };
        let mut errs = Vec::new();
        if self.key_err_new(key) {
            errs.push(ErrKind::InvalidKeySize);
        }
        if self.value_err(&new_value) {
            errs.push(ErrKind::InvalidValueSize);
        }
        if !errs.is_empty() {
            return Self::err(errs);
        }
        if self.oom(key.len(), new_value.len(), Some(cur.value.len())) {
            return Self::err(vec![ErrKind::OutOfMemory]);
        }
        let (t, auto) = match Self::resolve_ts(ts, observed) {
            Ok(x) => x,
            Err(o) => return o,
        };
        self.map.insert(key.to_vec(), Gen { value: Arc::new(new_value), ts: t, expiry: 0, json_derived: true });
        Outcome { admissible: vec![Res::Unit], effects: Self::accept_effects(t, auto, Some(cur.ts)) }
    }

    fn update_ttl(&mut self, key: &[u8], ttl: u64, observed: Option<u64>, persist_api: bool) -> Outcome {
        let mut errs = Vec::new();
        if !self.ttl {
            errs.push(ErrKind::TtlNotEnabled);
        }
        if self.persistent && self.version == 1 && (!persist_api || self.ttl) {
            errs.push(ErrKind::Unsupported);
        }
        if self.key_err_basic(key) && (!persist_api || self.ttl) {
            errs.push(ErrKind::InvalidKeySize);
        }
        if !errs.is_empty() {
            return Self::err(errs);
        }
        let Some(cur) = self.map.get(key).cloned() else {
            return Self::err(vec![ErrKind::KeyNotFound]);
        };
        if cur.expiry > 0 && self.now > cur.expiry {
            return Self::err(vec![ErrKind::KeyNotFound]);
        }
        if cur.ts == u64::MAX {
            return Self::err(vec![ErrKind::OlderTimestamp]);
        }
        let Some(t) = observed else {
            return Self::one(Res::Err(ErrKind::Other("model: accepted write left no record".into())));
        };
        let expiry = ttl_expiry(self.now, ttl);
        self.map.insert(key.to_vec(), Gen { value: cur.value.clone(), ts: t, expiry, json_derived: cur.json_derived });
        Outcome { admissible: vec![Res::Unit], effects: Self::accept_effects(t, true, Some(cur.ts)) }
    }

    /// Clean reopen: with TTL enabled recovery drops generations that are expired at open time.
    pub fn reopen(&mut self, ttl: bool) {
        self.ttl = ttl;
        if ttl {
            let now = self.now;
            self.map.retain(|_, g| !(g.expiry > 0 && now > g.expiry));
        }
    }
}

pub fn apply_patch(doc: &[u8], patch: &[u8]) -> Result<Vec<u8>, ()> {
    let mut doc: serde_json::Value = serde_json::from_slice(doc).map_err(|_| ())?;
    let patch: json_patch::Patch = serde_json::from_slice(patch).map_err(|_| ())?;
    json_patch::patch(&mut doc, &patch).map_err(|_| ())?;
    serde_json::to_vec(&doc).map_err(|_| ())
}

pub fn json_equal(a: &[u8], b: &[u8]) -> bool {
    match (serde_json::from_slice::<serde_json::Value>(a), serde_json::from_slice::<serde_json::Value>(b)) {
        (Ok(x), Ok(y)) => x == y,
        _ => false,
    }
}

//! Operation alphabet, configurations and proptest strategies for the sequential engine.
//! Every random choice lives in these strategies; the interpreter resolves symbolic
//! arguments (key index, relative timestamps, length classes) against the model.

use proptest::prelude::*;
use serde::{Deserialize, Serialize};

/// Weighted union that tolerates zero weights (proptest's prop_oneof! panics on them).
macro_rules! wone {
    ($($w:expr => $s:expr),+ $(,)?) => {{
        let mut v = Vec::new();
        $( let w: u32 = $w; if w > 0 { v.push((w, $s.boxed())); } )+
        proptest::strategy::Union::new_weighted(v)
    }};
}

pub const T0: u64 = 1_700_000_000_000_000_000; // virtual epoch (ns)
pub const NS: u64 = 1_000_000_000;

#[derive(Clone, Debug, Serialize, Deserialize, PartialEq, Eq)]
pub enum DevSize {
    /// data blocks (device = 16 + n blocks)
    Tiny(u16),
    Normal,
    Large,
}

impl DevSize {
    pub fn blocks(&self) -> u64 {
        match self {
            DevSize::Tiny(n) => 16 + *n as u64,
            DevSize::Normal => 512 + 16,
            DevSize::Large => 6 * 1024 + 16,
        }
    }
}

#[derive(Clone, Debug, Serialize, Deserialize, PartialEq, Eq)]
pub struct Config {
    pub persistent: bool,
    pub version: u32,
    pub cache: bool,
    pub ttl: bool,
    pub dev: DevSize,
    pub max_memory: Option<usize>,
    pub plain_io: bool,
    /// legacy devices: metadata block without checksum, as the released v1/v2 wrote it
    pub legacy_plain_meta: bool,
    /// number of CPUs visible while the store is opened (0 = all): workers = max(1, n/2)
    #[serde(default)]
    pub visible_cpus: u8,
}

#[derive(Clone, Copy, Debug, Serialize, Deserialize, PartialEq, Eq)]
pub enum KeyRef {
    /// scaled index into the case's key universe
    Idx(u16),
    Empty,
    /// one byte longer than the recoverable maximum of the format (valid in memory-only mode)
    OverRecoverable,
    /// MAX_KEY_SIZE + 1
    Huge,
    /// exactly the recoverable maximum of the format
    AtRecoverable,
    /// keys around the 16-bit length boundary and up to MAX_KEY_SIZE (valid in memory-only mode):
    /// 0 => 65535, 1 => 65536, 2 => 65537, 3 => 70000, _ => MAX_KEY_SIZE
    Wide(u8),
}

#[derive(Clone, Copy, Debug, Serialize, Deserialize, PartialEq, Eq)]
pub enum TsSpec {
    Auto,
    Zero,
    Abs(u64),
    /// relative to the key's current timestamp in the model (absent key: relative to `now`)
    RelCur(i64),
    /// relative to the virtual clock
    RelNow(i64),
    MaxMinus1,
    Max,
}

#[derive(Clone, Copy, Debug, Serialize, Deserialize, PartialEq, Eq)]
pub enum LenClass {
    Empty,
    One,
    Eight,
    Small(u16),
    /// extent of exactly `blocks` blocks, plus `delta` bytes (-1, 0, +1)
    Edge(u8, i8),
    /// somewhere inside `blocks` blocks
    Multi(u8, u16),
    Big300K,
    Max4M,
    Over4M,
    /// somewhere inside `blocks` blocks for extents beyond one retirement write (256 blocks)
    Wide(u16, u16),
}

#[derive(Clone, Copy, Debug, Serialize, Deserialize, PartialEq, Eq)]
pub enum ValKind {
    /// self-identifying stamps (key id, generation, offset)
    Stamp,
    Json,
    Counter(i64),
    /// byte-exact image of a valid record of another key placed on a block boundary of the extent
    HostileRecord,
    /// byte-exact retirement marker images on the block boundaries of the extent
    HostileMarker,
    /// legacy all-zero tombstones on the block boundaries
    HostileTombstone,
}

#[derive(Clone, Copy, Debug, Serialize, Deserialize, PartialEq, Eq)]
pub struct ValSpec {
    pub len: LenClass,
    pub kind: ValKind,
}

#[derive(Clone, Copy, Debug, Serialize, Deserialize, PartialEq, Eq)]
pub enum Expect {
    Current,
    Stale,
    Random(u8),
}

#[derive(Clone, Copy, Debug, Serialize, Deserialize, PartialEq, Eq)]
pub enum PatchKind {
    /// replace /n with a number
    ReplaceN(i32),
    /// add /extra/<i> style member
    AddField(u8),
    RemoveField,
    /// a `test` op that fails
    FailingTest,
    /// not JSON at all
    Malformed,
    /// add a long string so the document grows by about n bytes
    Grow(u32),
    /// `[]`: succeeds and leaves the document as it is (still a write: new timestamp, TTL cleared)
    Empty,
    /// add /extra/same = 1: the second application leaves the document byte-identical
    AddSame,
    /// `test` /extra/same == 1 alone: passes (without changing anything) once AddSame was applied
    TestSame,
}

#[derive(Clone, Copy, Debug, Serialize, Deserialize, PartialEq, Eq)]
pub enum BoundSpec {
    Empty,
    Key(KeyRef),
    /// the key with its last byte decremented / a byte appended
    KeyMinus(KeyRef),
    KeyPlus(KeyRef),
    AllFf,
}

#[derive(Clone, Copy, Debug, Serialize, Deserialize, PartialEq, Eq)]
pub enum Advance {
    Ns(u64),
    /// move the clock to the expiry of the key's stored generation + delta (forward only)
    ToExpiry(KeyRef, i64),
}

#[derive(Clone, Debug, Serialize, Deserialize, PartialEq, Eq)]
pub enum Op {
    Insert { k: KeyRef, v: ValSpec, ts: TsSpec, bytes: bool },
    InsertTtl { k: KeyRef, v: ValSpec, ttl: u64, ts: TsSpec, bytes: bool },
    Get { k: KeyRef, bytes: bool },
    GetSize { k: KeyRef },
    Contains { k: KeyRef },
    Delete { k: KeyRef, ts: TsSpec },
    Cas { k: KeyRef, expect: Expect, v: ValSpec, ts: TsSpec, ttl: Option<u64> },
    Incr { k: KeyRef, delta: i64, ts: TsSpec, ttl: Option<u64> },
    InsertIfAbsent { k: KeyRef, v: ValSpec },
    JsonPatch { k: KeyRef, patch: PatchKind, ts: TsSpec },
    UpdateTtl { k: KeyRef, ttl: u64 },
    Persist { k: KeyRef },
    GetTtl { k: KeyRef },
    Range { start: BoundSpec, end: BoundSpec, limit: u32 },
    Flush,
    Reopen { cache: Option<bool>, ttl: Option<bool> },
    Advance(Advance),
    /// sleep 130 ms of real time so the periodic flusher acts
    Sleep,
}

impl Op {
    pub fn name(&self) -> &'static str {
        match self {
            Op::Insert { .. } => "insert",
            Op::InsertTtl { .. } => "insert_ttl",
            Op::Get { .. } => "get",
            Op::GetSize { .. } => "get_size",
            Op::Contains { .. } => "contains",
            Op::Delete { .. } => "delete",
            Op::Cas { .. } => "cas",
            Op::Incr { .. } => "incr",
            Op::InsertIfAbsent { .. } => "insert_if_absent",
            Op::JsonPatch { .. } => "json_patch",
            Op::UpdateTtl { .. } => "update_ttl",
            Op::Persist { .. } => "persist",
            Op::GetTtl { .. } => "get_ttl",
            Op::Range { .. } => "range",
            Op::Flush => "flush",
            Op::Reopen { .. } => "reopen",
            Op::Advance(_) => "advance",
            Op::Sleep => "sleep",
        }
    }
    pub fn key(&self) -> Option<KeyRef> {
        match self {
            Op::Insert { k, .. }
            | Op::InsertTtl { k, .. }
            | Op::Get { k, .. }
            | Op::GetSize { k }
            | Op::Contains { k }
            | Op::Delete { k, .. }
            | Op::Cas { k, .. }
            | Op::Incr { k, .. }
            | Op::InsertIfAbsent { k, .. }
            | Op::JsonPatch { k, .. }
            | Op::UpdateTtl { k, .. }
            | Op::Persist { k }
            | Op::GetTtl { k } => Some(*k),
            _ => None,
        }
    }
}

#[derive(Clone, Debug, Serialize, Deserialize, PartialEq, Eq)]
pub struct Case {
    pub cfg: Config,
    pub keys: Vec<Vec<u8>>,
    pub t0_offset: u64,
    pub ops: Vec<Op>,
}

// ------------------------------------------------------------------------------------------
// strategies
// ------------------------------------------------------------------------------------------

/// Knobs that bias the generators per property.
#[derive(Clone, Debug)]
pub struct Bias {
    pub max_ops: usize,
    pub persistent: Option<bool>,
    pub versions: Vec<u32>,
    pub ttl: Option<bool>,
    pub cache: Option<bool>,
    pub tiny_device: u32,   // weight of tiny devices
    pub large_device: u32,  // weight of 24 MB devices (needed for 4 MB values)
    pub memory_limit: u32,  // weight of a tight memory limit
    pub invalid: u32,       // weight of invalid keys / values
    pub ttl_ops: u32,       // weight of TTL-flavoured ops
    pub range_ops: u32,
    pub ts_explicit: u32,   // weight of explicit timestamps
    pub near_max_ts: bool,  // allow u64::MAX-1 / u64::MAX
    pub multi_block: u32,   // weight of multi-block values
    pub hostile: u32,       // weight of hostile payloads
    pub big_values: bool,
    pub flush: u32,
    pub reopen: u32,
    pub sleep: u32,
    pub many_keys: bool,
    pub long_keys: bool,
    pub json: u32,
    pub counters: u32,
    pub ttl_toggle: bool,  // reopen may change the TTL switch
    pub get_weight: u32,
    pub few_keys: bool,
    /// weight of values whose extent spans 200-600 blocks (more than one retirement write)
    pub wide_extents: u32,
}

impl Default for Bias {
    fn default() -> Self {
        Bias {
            max_ops: 40,
            persistent: None,
            versions: vec![1, 2, 3, 3, 3],
            ttl: None,
            cache: None,
            tiny_device: 2,
            large_device: 1,
            memory_limit: 1,
            invalid: 2,
            ttl_ops: 6,
            range_ops: 4,
            ts_explicit: 4,
            near_max_ts: false,
            multi_block: 3,
            hostile: 1,
            big_values: true,
            flush: 5,
            reopen: 2,
            sleep: 1,
            many_keys: false,
            long_keys: true,
            json: 3,
            counters: 3,
            ttl_toggle: true,
            get_weight: 14,
            few_keys: false,
            wide_extents: 2,
        }
    }
}

pub fn config_strategy(b: &Bias) -> BoxedStrategy<Config> {
    let persistent = match b.persistent {
        Some(p) => Just(p).boxed(),
        None => wone![1 => Just(false), 3 => Just(true)].boxed(),
    };
    let versions = b.versions.clone();
    let version = (0..versions.len()).prop_map(move |i| versions[i]);
    let ttl = match b.ttl {
        Some(t) => Just(t).boxed(),
        None => wone![1 => Just(false), 2 => Just(true)].boxed(),
    };
    let cache = match b.cache {
        Some(c) => Just(c).boxed(),
        None => any::<bool>().boxed(),
    };
    let dev = wone![
        b.tiny_device => (24u16..80).prop_map(DevSize::Tiny),
        4 => Just(DevSize::Normal),
        b.large_device => Just(DevSize::Large),
    ];
    let mem = wone![
        8 => Just(None),
        b.memory_limit => (2_000usize..40_000).prop_map(Some),
    ];
    let cpus = prop_oneof![Just(2u8), Just(2u8), Just(4u8), Just(6u8), Just(8u8), Just(0u8)];
    (persistent, version, ttl, cache, dev, mem, proptest::bool::weighted(0.75), any::<bool>(), cpus)
        .prop_map(|(persistent, version, ttl, cache, dev, max_memory, plain_io, legacy_plain_meta, visible_cpus)| Config {
            visible_cpus,
            persistent,
            version: if persistent { version } else { 3 },
            cache: persistent && cache,
            ttl,
            dev,
            max_memory,
            plain_io,
            legacy_plain_meta: persistent && version < 3 && legacy_plain_meta,
        })
        .boxed()
}

pub fn keys_strategy(b: &Bias) -> BoxedStrategy<Vec<Vec<u8>>> {
    let short = prop_oneof![
        Just(b"a".to_vec()),
        Just(b"a\0".to_vec()),
        Just(b"a\0\0".to_vec()),
        Just(b"ab".to_vec()),
        Just(b"a\xff".to_vec()),
        Just(b"b".to_vec()),
        Just(b"\0".to_vec()),
        Just(b"\xff".to_vec()),
        Just(b"\xff\xff".to_vec()),
        Just(b"user:1".to_vec()),
        Just(b"user:10".to_vec()),
        Just(b"user:2".to_vec()),
    ];
    let single = any::<u8>().prop_map(|x| vec![x]);
    let heavy = proptest::collection::vec(prop_oneof![Just(0u8), Just(0xffu8), any::<u8>()], 1..12);
    // 4066 = v2/v3 recoverable maximum (v1: 4074, reached through KeyRef::AtRecoverable)
    let long = prop_oneof![Just(4066usize), Just(4065), Just(300), Just(4000)]
        .prop_flat_map(|n| (Just(n), any::<u8>()))
        .prop_map(|(n, x)| {
            let mut k = vec![b'L'; n];
            k[n - 1] = x;
            k
        });
    let key = if b.long_keys {
        wone![6 => short, 2 => single, 3 => heavy, 1 => long].boxed()
    } else {
        wone![6 => short, 2 => single, 3 => heavy].boxed()
    };
    let range = if b.many_keys { 40..130usize } else if b.few_keys { 2..5usize } else { 3..10usize };
    proptest::collection::vec(key, range)
        .prop_map(|mut ks| {
            ks.sort();
            ks.dedup();
            ks
        })
        .boxed()
}

fn keyref(b: &Bias) -> BoxedStrategy<KeyRef> {
    wone![
        60 => any::<u16>().prop_map(KeyRef::Idx),
        b.invalid => Just(KeyRef::Empty),
        b.invalid => Just(KeyRef::OverRecoverable),
        b.invalid / 2 => Just(KeyRef::Huge),
        1 => Just(KeyRef::AtRecoverable),
        if b.long_keys { 1 } else { 0 } => (0u8..5).prop_map(KeyRef::Wide),
    ]
    .boxed()
}

fn tsspec(b: &Bias) -> BoxedStrategy<TsSpec> {
    let near = if b.near_max_ts { 1 } else { 0 };
    wone![
        12 => Just(TsSpec::Auto),
        1 => Just(TsSpec::Zero),
        b.ts_explicit => (1u64..50).prop_map(TsSpec::Abs),
        b.ts_explicit * 2 => prop_oneof![Just(-1i64), Just(0), Just(1), Just(2), Just(1000)].prop_map(TsSpec::RelCur),
        b.ts_explicit => prop_oneof![Just(-1_000_000_000i64), Just(-1), Just(0), Just(1), Just(1_000_000_000_000_000)].prop_map(TsSpec::RelNow),
        near => Just(TsSpec::MaxMinus1),
        near => Just(TsSpec::Max),
    ]
    .boxed()
}

fn lenclass(b: &Bias) -> BoxedStrategy<LenClass> {
    let big = if b.big_values { 1 } else { 0 };
    wone![
        b.invalid => Just(LenClass::Empty),
        3 => Just(LenClass::One),
        3 => Just(LenClass::Eight),
        20 => (2u16..600).prop_map(LenClass::Small),
        b.multi_block * 2 => (1u8..4, -1i8..=1).prop_map(|(n, d)| LenClass::Edge(n, d)),
        b.multi_block * 3 => (2u8..7, any::<u16>()).prop_map(|(n, o)| LenClass::Multi(n, o)),
        big => Just(LenClass::Big300K),
        big => wone![3 => Just(LenClass::Max4M), 1 => Just(LenClass::Over4M)],
        if b.big_values || b.wide_extents > 2 { b.wide_extents } else { 0 } => (prop_oneof![2 => 257u16..300, 2 => 300u16..600, 1 => 200u16..257, 1 => Just(512u16), 1 => Just(513u16)], any::<u16>()).prop_map(|(n, o)| LenClass::Wide(n, o)),
    ]
    .boxed()
}

pub fn valspec(b: &Bias) -> BoxedStrategy<ValSpec> {
    let kind = wone![
        20 => Just(ValKind::Stamp),
        b.json => Just(ValKind::Json),
        b.counters => any::<i64>().prop_map(ValKind::Counter),
        b.hostile => Just(ValKind::HostileRecord),
        b.hostile => Just(ValKind::HostileMarker),
        b.hostile => Just(ValKind::HostileTombstone),
    ];
    (lenclass(b), kind).prop_map(|(len, kind)| ValSpec { len, kind }).boxed()
}

fn ttl_secs() -> BoxedStrategy<u64> {
    wone![
        1 => Just(0u64),
        4 => Just(1u64),
        3 => Just(60u64),
        2 => 2u64..10,
        1 => Just(u64::MAX),
        1 => Just(u64::MAX / NS),
    ]
    .boxed()
}

fn boundspec(b: &Bias) -> BoxedStrategy<BoundSpec> {
    wone![
        2 => Just(BoundSpec::Empty),
        6 => keyref(b).prop_map(BoundSpec::Key),
        2 => keyref(b).prop_map(BoundSpec::KeyMinus),
        2 => keyref(b).prop_map(BoundSpec::KeyPlus),
        2 => Just(BoundSpec::AllFf),
    ]
    .boxed()
}

pub fn op_strategy(b: &Bias) -> BoxedStrategy<Op> {
    let k = || keyref(b);
    let ts = || tsspec(b);
    let v = || valspec(b);
    let patch = wone![
        3 => any::<i32>().prop_map(PatchKind::ReplaceN),
        2 => (0i32..3).prop_map(PatchKind::ReplaceN),
        3 => any::<u8>().prop_map(PatchKind::AddField),
        2 => Just(PatchKind::RemoveField),
        2 => Just(PatchKind::FailingTest),
        1 => Just(PatchKind::Malformed),
        1 => (1u32..9000).prop_map(PatchKind::Grow),
        2 => Just(PatchKind::Empty),
        2 => Just(PatchKind::AddSame),
        1 => Just(PatchKind::TestSame),
    ];
    let expect = wone![
        6 => Just(Expect::Current),
        2 => Just(Expect::Stale),
        1 => any::<u8>().prop_map(Expect::Random),
    ];
    let opt_ttl = wone![3 => Just(None), b.ttl_ops.min(3) => ttl_secs().prop_map(Some)];
    let opt_ttl2 = wone![3 => Just(None), b.ttl_ops.min(3) => ttl_secs().prop_map(Some)];
    let toggle = b.ttl_toggle;
    wone![
        20 => (k(), v(), ts(), any::<bool>()).prop_map(|(k, v, ts, bytes)| Op::Insert { k, v, ts, bytes }),
        b.ttl_ops * 2 => (k(), v(), ttl_secs(), ts(), any::<bool>())
            .prop_map(|(k, v, ttl, ts, bytes)| Op::InsertTtl { k, v, ttl, ts, bytes }),
        b.get_weight => (k(), any::<bool>()).prop_map(|(k, bytes)| Op::Get { k, bytes }),
        2 => k().prop_map(|k| Op::GetSize { k }),
        2 => k().prop_map(|k| Op::Contains { k }),
        8 => (k(), ts()).prop_map(|(k, ts)| Op::Delete { k, ts }),
        6 => (k(), expect, v(), ts(), opt_ttl).prop_map(|(k, expect, v, ts, ttl)| Op::Cas { k, expect, v, ts, ttl }),
        6 => (k(), prop_oneof![Just(1i64), Just(-1), any::<i64>(), Just(i64::MAX), Just(i64::MIN)], ts(), opt_ttl2)
            .prop_map(|(k, delta, ts, ttl)| Op::Incr { k, delta, ts, ttl }),
        4 => (k(), v()).prop_map(|(k, v)| Op::InsertIfAbsent { k, v }),
        b.json + 1 => (k(), patch, ts()).prop_map(|(k, patch, ts)| Op::JsonPatch { k, patch, ts }),
        b.ttl_ops => (k(), ttl_secs()).prop_map(|(k, ttl)| Op::UpdateTtl { k, ttl }),
        b.ttl_ops / 2 => k().prop_map(|k| Op::Persist { k }),
        b.ttl_ops / 2 => k().prop_map(|k| Op::GetTtl { k }),
        b.range_ops => (boundspec(b), boundspec(b), prop_oneof![Just(0u32), Just(1), 2u32..6, Just(u32::MAX)])
            .prop_map(|(start, end, limit)| Op::Range { start, end, limit }),
        b.flush => Just(Op::Flush),
        b.reopen => (proptest::option::of(any::<bool>()), proptest::option::of(any::<bool>()))
            .prop_map(move |(cache, ttl)| Op::Reopen { cache, ttl: if toggle { ttl } else { None } }),
        b.ttl_ops => wone![
            2 => prop_oneof![Just(1u64), Just(NS - 1), Just(NS), Just(NS + 1), Just(61 * NS), 1u64..(5 * NS)].prop_map(Advance::Ns),
            4 => (k(), prop_oneof![Just(-1i64), Just(0), Just(1), Just(-(NS as i64)), Just(NS as i64)]).prop_map(|(k, d)| Advance::ToExpiry(k, d)),
        ].prop_map(Op::Advance),
        b.sleep => Just(Op::Sleep),
    ]
    .boxed()
}

pub fn case_strategy(b: &Bias) -> BoxedStrategy<Case> {
    let max_ops = b.max_ops;
    (
        config_strategy(b),
        keys_strategy(b),
        0u64..1_000_000_000_000u64,
        proptest::collection::vec(op_strategy(b), 1..max_ops),
    )
        .prop_map(|(cfg, keys, t0_offset, ops)| Case { cfg, keys, t0_offset, ops })
        .boxed()
}

/// KeyRef that resolves exactly to key `j` of a universe of `n` keys.
pub fn key_at(j: usize, n: usize) -> KeyRef {
    KeyRef::Idx(((j * 65536).div_ceil(n)).min(65535) as u16)
}

/// C05: fill a small device past its capacity, free part of it, refill, empty it, refill again.
pub fn fill_cycle_strategy(versions: Vec<u32>) -> BoxedStrategy<Case> {
    let nver = versions.len();
    let sized = |lo: u8, hi: u8| {
        prop_oneof![
            2 => (1u16..3000).prop_map(LenClass::Small),
            3 => (lo..hi, -1i8..=1).prop_map(|(n, d)| LenClass::Edge(n, d)),
            4 => (lo.max(2)..hi.max(3), any::<u16>()).prop_map(|(n, o)| LenClass::Multi(n, o)),
        ]
        .prop_map(|len| ValSpec { len, kind: ValKind::Stamp })
    };
    (
        (0..nver, 24u16..80, prop_oneof![Just(2u8), Just(2u8), Just(4u8), Just(8u8)], proptest::bool::weighted(0.75), any::<bool>()),
        12usize..40,
        0u64..1_000_000_000_000u64,
    )
        .prop_flat_map(move |((vi, blocks, visible_cpus, plain_io, legacy_plain_meta), nkeys, t0_offset)| {
            let version = versions[vi];
            let cfg = Config {
                persistent: true,
                version,
                cache: false,
                ttl: false,
                dev: DevSize::Tiny(blocks),
                max_memory: None,
                plain_io,
                legacy_plain_meta: version < 3 && legacy_plain_meta,
                visible_cpus,
            };
            let keys: Vec<Vec<u8>> = (0..nkeys).map(|i| format!("fill-{i:03}").into_bytes()).collect();
            let n = nkeys;
            let ins = move |lo: u8, hi: u8| (0..n, sized(lo, hi)).prop_map(move |(j, v)| Op::Insert { k: key_at(j, n), v, ts: TsSpec::Auto, bytes: false });
            let del = (0..n).prop_map(move |j| Op::Delete { k: key_at(j, n), ts: TsSpec::Auto });
            (
                Just(cfg),
                Just(keys),
                Just(t0_offset),
                proptest::collection::vec(ins(1, 4), 4..24),
                proptest::collection::vec(ins(2, 7), 3..16),
                proptest::collection::vec(del.clone(), 2..20),
                any::<bool>(),
                proptest::collection::vec(ins(1, 5), 3..14),
                proptest::collection::vec(prop_oneof![3 => ins(1, 6).boxed(), 2 => del.boxed(), 1 => Just(Op::Flush).boxed(), 1 => Just(Op::Sleep).boxed()], 0..30),
            )
        })
        .prop_map(|(cfg, keys, t0_offset, first, overfill, deletes, reopen, overwrite, tail)| {
            let n = keys.len();
            let mut ops = Vec::new();
            ops.extend(first.clone());
            ops.push(Op::Flush);
            ops.extend(overfill);
            ops.push(Op::Flush);
            ops.extend(deletes);
            ops.push(Op::Flush);
            if reopen {
                ops.push(Op::Reopen { cache: None, ttl: None });
            }
            ops.extend(overwrite);
            ops.push(Op::Flush);
            ops.extend(tail);
            ops.push(Op::Flush);
            // empty the device completely, then everything a fresh device accepted must fit again
            for j in 0..n {
                ops.push(Op::Delete { k: key_at(j, n), ts: TsSpec::Auto });
            }
            ops.push(Op::Flush);
            ops.extend(first);
            ops.push(Op::Flush);
            Case { cfg, keys, t0_offset, ops }
        })
        .boxed()
}

/// Crash engine: batches of 60-120 records in ONE shard (single worker), so a batch's journal
/// intent spans several 512-byte sectors and can be torn.
pub fn wide_batch_strategy(versions: Vec<u32>) -> BoxedStrategy<Case> {
    let nver = versions.len();
    ((0..nver, any::<bool>(), any::<bool>(), any::<bool>()), prop_oneof![3 => 64usize..125, 1 => 129usize..300], 0u64..1_000_000_000_000u64)
        .prop_flat_map(move |((vi, plain_io, legacy_plain_meta, ttl), nkeys, t0_offset)| {
            let version = versions[vi];
            let cfg = Config {
                persistent: true,
                version,
                cache: false,
                ttl,
                dev: DevSize::Normal,
                max_memory: None,
                plain_io,
                legacy_plain_meta: version < 3 && legacy_plain_meta,
                visible_cpus: 2,
            };
            let keys: Vec<Vec<u8>> = (0..nkeys).map(|i| format!("w{i:03}").into_bytes()).collect();
            let n = nkeys;
            let small = (1u16..300).prop_map(|l| ValSpec { len: LenClass::Small(l), kind: ValKind::Stamp });
            let batch = move |lo: usize| proptest::collection::vec((0..n, small.clone()), lo..n + 20).prop_map(move |v| v.into_iter().map(|(j, v)| Op::Insert { k: key_at(j, n), v, ts: TsSpec::Auto, bytes: false }).collect::<Vec<_>>());
            let dels = proptest::collection::vec(0..n, 0..30).prop_map(move |v| v.into_iter().map(|j| Op::Delete { k: key_at(j, n), ts: TsSpec::Auto }).collect::<Vec<_>>());
            (Just(cfg), Just(keys), Just(t0_offset), proptest::collection::vec((batch(n - 4), dels, any::<bool>()), 2..5))
        })
        .prop_map(|(cfg, keys, t0_offset, rounds)| {
            let n = keys.len();
            let mut ops = Vec::new();
            // first round touches every key once so the batch has one record per key
            for j in 0..n {
                ops.push(Op::Insert { k: key_at(j, n), v: ValSpec { len: LenClass::Small(40 + (j % 200) as u16), kind: ValKind::Stamp }, ts: TsSpec::Auto, bytes: false });
            }
            ops.push(Op::Flush);
            for (batch, dels, flush_between) in rounds {
                ops.extend(batch);
                if flush_between {
                    ops.push(Op::Flush);
                }
                ops.extend(dels);
                ops.push(Op::Flush);
            }
            Case { cfg, keys, t0_offset, ops }
        })
        .boxed()
}

/// Crash engine: a small device filled to its very last block. Single-block fillers occupy all
/// but the last r blocks, then a record of exactly r blocks takes the tail run (best fit, exact),
/// is deleted / rewritten between flushes: journal transactions (record batches and retirements)
/// whose extent ends exactly at the end of the device, torn multi-block writes there.
pub fn device_end_strategy(versions: Vec<u32>) -> BoxedStrategy<Case> {
    let nver = versions.len();
    ((0..nver, 10u16..42, any::<bool>(), any::<bool>(), any::<bool>()), 0u8..4, 0u64..1_000_000_000_000u64, proptest::collection::vec((0u8..5, any::<u16>(), any::<bool>()), 1..5))
        .prop_map(move |((vi, blocks, plain_io, legacy_plain_meta, ttl), rsel, t0_offset, rounds)| {
            let version = versions[vi];
            let cfg = Config { persistent: true, version, cache: false, ttl, dev: DevSize::Tiny(blocks), max_memory: None, plain_io, legacy_plain_meta: version < 3 && legacy_plain_meta, visible_cpus: 2 };
            let data = blocks as usize; // DevSize::Tiny counts data blocks
            let rmax = (data / 4).clamp(2, 5);
            let r = 2 + (rsel as usize % (rmax - 1));
            let fillers = data - r;
            let n = fillers + 2;
            let keys: Vec<Vec<u8>> = (0..n).map(|i| format!("end-{i:03}").into_bytes()).collect();
            let small = |j: usize| ValSpec { len: LenClass::Small(20 + (j as u16 * 13) % 900), kind: ValKind::Stamp };
            let tail_val = |d: i8| ValSpec { len: LenClass::Edge(r as u8, d), kind: ValKind::Stamp };
            let mut ops = Vec::new();
            for j in 0..fillers {
                ops.push(Op::Insert { k: key_at(j, n), v: small(j), ts: TsSpec::Auto, bytes: false });
            }
            ops.push(Op::Flush);
            // the tail record: exactly r blocks, ends on the last block of the device
            ops.push(Op::Insert { k: key_at(fillers, n), v: tail_val(0), ts: TsSpec::Auto, bytes: false });
            ops.push(Op::Flush);
            for (what, pick, flush_between) in rounds {
                let f = pick as usize % fillers;
                match what {
                    0 => {
                        // retire the tail extent, write it again under the other tail key
                        ops.push(Op::Delete { k: key_at(fillers, n), ts: TsSpec::Auto });
                        if flush_between {
                            ops.push(Op::Flush);
                        }
                        ops.push(Op::Insert { k: key_at(fillers + 1, n), v: tail_val(-1), ts: TsSpec::Auto, bytes: false });
                        ops.push(Op::Flush);
                        ops.push(Op::Delete { k: key_at(fillers + 1, n), ts: TsSpec::Auto });
                        ops.push(Op::Flush);
                        ops.push(Op::Insert { k: key_at(fillers, n), v: tail_val(0), ts: TsSpec::Auto, bytes: false });
                    }
                    1 => {
                        // rewrite a filler in place (delete, flush, insert): the device stays full
                        ops.push(Op::Delete { k: key_at(f, n), ts: TsSpec::Auto });
                        ops.push(Op::Flush);
                        ops.push(Op::Insert { k: key_at(f, n), v: small(f + 7), ts: TsSpec::Auto, bytes: false });
                    }
                    2 => {
                        // tail record and a filler retired in one transaction
                        ops.push(Op::Delete { k: key_at(fillers, n), ts: TsSpec::Auto });
                        ops.push(Op::Delete { k: key_at(f, n), ts: TsSpec::Auto });
                        ops.push(Op::Flush);
                        ops.push(Op::Insert { k: key_at(fillers, n), v: tail_val(0), ts: TsSpec::Auto, bytes: false });
                        ops.push(Op::Insert { k: key_at(f, n), v: small(f + 3), ts: TsSpec::Auto, bytes: false });
                    }
                    3 => {
                        ops.push(Op::Delete { k: key_at(fillers, n), ts: TsSpec::Auto });
                        ops.push(Op::Sleep);
                        ops.push(Op::Insert { k: key_at(fillers, n), v: tail_val(-1), ts: TsSpec::Auto, bytes: false });
                    }
                    _ => {
                        ops.push(Op::Delete { k: key_at(fillers, n), ts: TsSpec::Auto });
                        ops.push(Op::Flush);
                        ops.push(Op::Reopen { cache: None, ttl: None });
                        ops.push(Op::Insert { k: key_at(fillers, n), v: tail_val(0), ts: TsSpec::Auto, bytes: false });
                    }
                }
                ops.push(Op::Flush);
            }
            Case { cfg, keys, t0_offset, ops }
        })
        .boxed()
}

/// Crash engine: 2-3 keys whose values span 200-600 blocks on a 2400-block device, overwritten,
/// deleted and TTL-updated between flushes: extents beyond one retirement write (256 blocks),
/// multi-write marker chains, long journal replays.
pub fn wide_extent_strategy(versions: Vec<u32>) -> BoxedStrategy<Case> {
    let nver = versions.len();
    ((0..nver, any::<bool>(), any::<bool>(), proptest::bool::weighted(0.6)), 2usize..4, 0u64..1_000_000_000_000u64)
        .prop_flat_map(move |((vi, plain_io, legacy_plain_meta, ttl), nkeys, t0_offset)| {
            let version = versions[vi];
            let cfg = Config {
                persistent: true,
                version,
                cache: false,
                ttl,
                dev: DevSize::Tiny(2400),
                max_memory: None,
                plain_io,
                legacy_plain_meta: version < 3 && legacy_plain_meta,
                visible_cpus: 2,
            };
            let keys: Vec<Vec<u8>> = (0..nkeys).map(|i| format!("x{i}").into_bytes()).collect();
            let n = nkeys;
            let wide = (prop_oneof![3 => 257u16..300, 2 => 300u16..600, 1 => 200u16..257, 1 => Just(512u16), 1 => Just(513u16)], any::<u16>()).prop_map(|(b, o)| ValSpec { len: LenClass::Wide(b, o), kind: ValKind::Stamp });
            let small = (1u16..3000).prop_map(|l| ValSpec { len: LenClass::Small(l), kind: ValKind::Stamp });
            let op = prop_oneof![
                6 => (0..n, wide).prop_map(move |(j, v)| Op::Insert { k: key_at(j, n), v, ts: TsSpec::Auto, bytes: false }),
                2 => (0..n, small).prop_map(move |(j, v)| Op::Insert { k: key_at(j, n), v, ts: TsSpec::Auto, bytes: false }),
                2 => (0..n).prop_map(move |j| Op::Delete { k: key_at(j, n), ts: TsSpec::Auto }),
                1 => (0..n, prop_oneof![Just(60u64), Just(1u64)]).prop_map(move |(j, ttl)| Op::UpdateTtl { k: key_at(j, n), ttl }),
                1 => (0..n).prop_map(move |j| Op::Get { k: key_at(j, n), bytes: false }),
                1 => Just(Op::Sleep),
            ];
            let round = (proptest::collection::vec(op, 1..4), prop_oneof![6 => Just(Some(Op::Flush)), 1 => Just(Some(Op::Reopen { cache: None, ttl: None })), 1 => Just(None)]);
            (Just(cfg), Just(keys), Just(t0_offset), proptest::collection::vec(round, 2..7))
        })
        .prop_map(|(cfg, keys, t0_offset, rounds)| {
            let mut ops = Vec::new();
            for (body, end) in rounds {
                ops.extend(body);
                if let Some(e) = end {
                    ops.push(e);
                }
            }
            Case { cfg, keys, t0_offset, ops }
        })
        .boxed()
}

/// C14: ranges over more than 256 index entries (the scan re-pins its epoch guard every 256
/// visited entries), with expired-but-unswept, deleted and updated entries inside the range and
/// limits around the re-pin boundary.
pub fn long_range_strategy() -> BoxedStrategy<Case> {
    ((prop_oneof![3 => Just(false), 1 => Just(true)], proptest::bool::weighted(0.7), any::<bool>(), any::<bool>()), 257usize..620, 0u64..1_000_000_000_000u64)
        .prop_flat_map(move |((persistent, ttl, cache, plain_io), nkeys, t0_offset)| {
            let cfg = Config { persistent, version: 3, cache: persistent && cache, ttl, dev: DevSize::Large, max_memory: None, plain_io, legacy_plain_meta: false, visible_cpus: 2 };
            let keys: Vec<Vec<u8>> = (0..nkeys).map(|i| format!("r{i:04}").into_bytes()).collect();
            let n = nkeys;
            let bound = move || prop_oneof![2 => Just(BoundSpec::Empty), 3 => (0..n).prop_map(move |j| BoundSpec::Key(key_at(j, n))), 1 => (0..n).prop_map(move |j| BoundSpec::KeyPlus(key_at(j, n))), 2 => Just(BoundSpec::AllFf)];
            let limit = prop_oneof![Just(1u32), Just(255u32), Just(256u32), Just(257u32), Just(300u32), Just(511u32), Just(512u32), Just(513u32), (1u32..700), Just(u32::MAX)];
            let small = || (1u16..200).prop_map(|l| ValSpec { len: LenClass::Small(l), kind: ValKind::Stamp });
            let tail = prop_oneof![
                8 => (bound(), bound(), limit).prop_map(|(start, end, limit)| Op::Range { start, end, limit }),
                2 => (0..n).prop_map(move |j| Op::Delete { k: key_at(j, n), ts: TsSpec::Auto }),
                2 => (0..n, small()).prop_map(move |(j, v)| Op::Insert { k: key_at(j, n), v, ts: TsSpec::Auto, bytes: false }),
                1 => (0..n, prop_oneof![Just(1u64), Just(60u64)]).prop_map(move |(j, ttl)| Op::UpdateTtl { k: key_at(j, n), ttl }),
                2 => prop_oneof![Just(1_500_000_000u64), Just(61_000_000_000u64), Just(10u64)].prop_map(|ns| Op::Advance(Advance::Ns(ns))),
                1 => Just(Op::Flush),
            ];
            // per key: plain insert, short TTL, long TTL or left out
            let fill = proptest::collection::vec((prop_oneof![6 => Just(0u8), 2 => Just(1u8), 1 => Just(2u8), 1 => Just(3u8)], small()), n..n + 1);
            (Just(cfg), Just(keys), Just(t0_offset), fill, any::<bool>(), proptest::collection::vec(tail, 8..28))
        })
        .prop_map(|(cfg, keys, t0_offset, fill, flush_after_fill, tail)| {
            let n = keys.len();
            let mut ops = Vec::new();
            for (j, (kind, v)) in fill.into_iter().enumerate() {
                match kind {
                    0 => ops.push(Op::Insert { k: key_at(j, n), v, ts: TsSpec::Auto, bytes: false }),
                    1 => ops.push(Op::InsertTtl { k: key_at(j, n), v, ttl: 1, ts: TsSpec::Auto, bytes: false }),
                    2 => ops.push(Op::InsertTtl { k: key_at(j, n), v, ttl: 60, ts: TsSpec::Auto, bytes: false }),
                    _ => {}
                }
            }
            if flush_after_fill {
                ops.push(Op::Flush);
            }
            ops.extend(tail);
            Case { cfg, keys, t0_offset, ops }
        })
        .boxed()
}

/// Crash engine: one flush retires more extents than one allocation-journal transaction holds:
/// 2000-2400 two- or three-block records interleaved with live one-block records (so most
/// retired extents do not coalesce) written through four shards, all acknowledged, then deleted (or overwritten by a small
/// value) and flushed again.
pub fn mass_delete_strategy() -> BoxedStrategy<Case> {
    ((any::<bool>(), proptest::bool::weighted(0.3)), 2000usize..2400, 2u8..4, any::<bool>(), 0u64..1_000_000_000_000u64)
        .prop_map(|((plain_io, ttl), pairs, blocks, overwrite, t0_offset)| {
            let data_blocks = pairs * (blocks as usize + 1) + if overwrite { pairs } else { 0 } + 64;
            let cfg = Config { persistent: true, version: 3, cache: false, ttl, dev: DevSize::Tiny(data_blocks as u16), max_memory: None, plain_io, legacy_plain_meta: false, visible_cpus: 8 };
            let n = pairs * 2;
            let keys: Vec<Vec<u8>> = (0..n).map(|i| format!("m{i:04}").into_bytes()).collect();
            let mut ops = Vec::new();
            for i in 0..pairs {
                ops.push(Op::Insert { k: key_at(2 * i, n), v: ValSpec { len: LenClass::Multi(blocks, 77), kind: ValKind::Stamp }, ts: TsSpec::Auto, bytes: false });
                ops.push(Op::Insert { k: key_at(2 * i + 1, n), v: ValSpec { len: LenClass::Small(20), kind: ValKind::Stamp }, ts: TsSpec::Auto, bytes: false });
            }
            ops.push(Op::Flush);
            for i in 0..pairs {
                if overwrite {
                    ops.push(Op::Insert { k: key_at(2 * i, n), v: ValSpec { len: LenClass::Small(30), kind: ValKind::Stamp }, ts: TsSpec::Auto, bytes: false });
                } else {
                    ops.push(Op::Delete { k: key_at(2 * i, n), ts: TsSpec::Auto });
                }
            }
            ops.push(Op::Flush);
            Case { cfg, keys, t0_offset, ops }
        })
        .boxed()
}

/// C12/C13: a tight memory budget and a handful of keys: growing updates (copying and zero-copy
/// API) that carry explicit future timestamps are refused with OutOfMemory, followed by
/// automatic calls on the same keys (a refused call's timestamp must not reach the clock).
pub fn budget_explicit_strategy() -> BoxedStrategy<Case> {
    ((any::<bool>(), any::<bool>(), any::<bool>()), 3usize..7, 2500usize..9000, 0u64..1_000_000_000_000u64)
        .prop_flat_map(move |((persistent, ttl, plain_io), nkeys, budget, t0_offset)| {
            let cfg = Config { persistent, version: 3, cache: false, ttl, dev: DevSize::Normal, max_memory: Some(budget), plain_io, legacy_plain_meta: false, visible_cpus: 2 };
            let keys: Vec<Vec<u8>> = (0..nkeys).map(|i| format!("q{i}").into_bytes()).collect();
            let n = nkeys;
            let future = prop_oneof![3 => Just(TsSpec::RelNow(1_000_000_000_000_000)), 2 => Just(TsSpec::RelCur(1000)), 1 => Just(TsSpec::RelNow(1)), 1 => Just(TsSpec::RelCur(1))];
            let grow = (400u16..4000).prop_map(|l| ValSpec { len: LenClass::Small(l), kind: ValKind::Stamp });
            let small = (1u16..200).prop_map(|l| ValSpec { len: LenClass::Small(l), kind: ValKind::Stamp });
            let op = prop_oneof![
                6 => (0..n, grow, future, any::<bool>()).prop_map(move |(j, v, ts, bytes)| Op::Insert { k: key_at(j, n), v, ts, bytes }),
                4 => (0..n, small.clone(), any::<bool>()).prop_map(move |(j, v, bytes)| Op::Insert { k: key_at(j, n), v, ts: TsSpec::Auto, bytes }),
                1 => (0..n).prop_map(move |j| Op::Delete { k: key_at(j, n), ts: TsSpec::Auto }),
                1 => (0..n, small.clone()).prop_map(move |(j, v)| Op::InsertTtl { k: key_at(j, n), v, ttl: 2, ts: TsSpec::Auto, bytes: false }),
                1 => (0..n).prop_map(move |j| Op::Incr { k: key_at(j, n), delta: 1, ts: TsSpec::Auto, ttl: None }),
                1 => (0..n).prop_map(move |j| Op::GetTtl { k: key_at(j, n) }),
                2 => Just(Op::Range { start: BoundSpec::Empty, end: BoundSpec::AllFf, limit: u32::MAX }),
                1 => (0..n).prop_map(move |j| Op::Get { k: key_at(j, n), bytes: true }),
                1 => Just(Op::Flush),
            ];
            (Just(cfg), Just(keys), Just(t0_offset), proptest::collection::vec(op, 10..40))
        })
        .prop_map(|(cfg, keys, t0_offset, tail)| {
            let n = keys.len();
            let mut ops: Vec<Op> = (0..n).map(|j| Op::Insert { k: key_at(j, n), v: ValSpec { len: LenClass::Small(120), kind: ValKind::Stamp }, ts: TsSpec::Auto, bytes: false }).collect();
            ops.extend(tail);
            Case { cfg, keys, t0_offset, ops }
        })
        .boxed()
}

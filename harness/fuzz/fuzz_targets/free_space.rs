#![no_main]
use libfuzzer_sys::fuzz_target;

// C06: byte string -> allocate/release calls on a small device, judged by the bitmap reference.
fuzz_target!(|data: &[u8]| {
    if let Err(msg) = fxvlib::props::c06::fuzz_entry(data) {
        panic!("C06 violation: {msg}");
    }
});

#![no_main]
use libfuzzer_sys::fuzz_target;

// C01 (memory tier; also exercises the C11-C14 oracles): byte string -> call sequence on a
// memory-only store, judged by the last-writer-wins model, the snapshot and the counters.
fuzz_target!(|data: &[u8]| {
    if let Err(msg) = fxvlib::props::seqprops::fuzz_entry(data) {
        panic!("C01 violation: {msg}");
    }
});

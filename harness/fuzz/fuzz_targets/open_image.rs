#![no_main]
use libfuzzer_sys::fuzz_target;

// C17: byte string -> mutation program over valid base images -> open + probe, no panic / takeover.
fuzz_target!(|data: &[u8]| {
    if let Err(msg) = fxvlib::props::c17::fuzz_entry(data) {
        panic!("C17 violation: {msg}");
    }
});

#![no_main]
use libfuzzer_sys::fuzz_target;

// C16 (unit part): byte string -> ClockCache call sequence, judged by the exact mirror.
fuzz_target!(|data: &[u8]| {
    if let Err(msg) = fxvlib::props::c16unit::fuzz_entry(data) {
        panic!("C16 violation: {msg}");
    }
});

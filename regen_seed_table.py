#!/usr/bin/env python3
"""Regenerate the seed table of DESIGN.md §10 from /verif/seeded/*/meta.json."""
import json, glob, os, re
rows=[]
metas=sorted(glob.glob('/verif/seeded/*/meta.json'))
missed=0
for m in metas:
    d=json.load(open(m))
    hist=d.get('history') or ('caught at first try' + ('' if not d.get('missed_by') else ' (also run and silent: '+', '.join(d['missed_by'])+')'))
    if hist.startswith('missed'): missed+=1
    rows.append('| %s | %s | %s | %s | %s |'%(d['seed'],d['breaks_property'],d['needs_to_manifest'].replace('|','/'),', '.join(d['caught_by']),hist.replace('|','/')))
p='/verif/DESIGN.md'; s=open(p).read()
head='| seed | property | needs | caught by | history |\n|---|---|---|---|---|\n'
i=s.index(head)+len(head); j=s.index('\nOwn sensitivity mutants')
s=s[:i]+'\n'.join(rows)+'\n'+s[j:]
s=re.sub(r'^\d+ changes were written by fresh sub-agents', '%d changes were written by fresh sub-agents'%len(rows), s, flags=re.M)
s=re.sub(r'\d+ of the \d+ were\n\*\*missed at first\*\*', '%d of the %d were\n**missed at first**'%(missed,len(rows)), s)
open(p,'w').write(s)
print(len(rows),'seeds,',missed,'missed at first')
